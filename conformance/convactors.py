"""Actors of the convention scenario of tools/conformance_thespian.py (two or three actor systems): a watcher that registers for
convention updates and creates children with an ip requirement, the way mechanic.Dispatcher does."""
from thespian.actors import Actor, ActorSystemConventionUpdate, PoisonMessage, ChildActorExited, ActorExitRequest
import os

class Remote(Actor):
    @staticmethod
    def actorSystemCapabilityCheck(capabilities, requirements):
        for name, value in requirements.items():
            current = capabilities.get(name, None)
            if current != value:
                return False
        return True

    def receiveMessage(self, msg, sender):
        if msg == "where":
            self.send(sender, ("i-am", os.getpid()))

class Watcher(Actor):
    def __init__(self):
        super().__init__()
        self.log = []
        self.kids = []
    def kid(self, addr):
        for a, ip in self.kids:
            if a == addr:
                return ip
        return None

    def receiveMessage(self, msg, sender):
        if msg == "register":
            self.notifyOnSystemRegistrationChanges(True)
            self.send(sender, "registered")
        elif msg == "unregister":
            self.notifyOnSystemRegistrationChanges(False)
            self.send(sender, "unregistered")
        elif isinstance(msg, ActorSystemConventionUpdate):
            self.log.append(("conv", bool(msg.remoteAdded), (msg.remoteCapabilities or {}).get("ip")))
        elif isinstance(msg, tuple) and msg[0] == "create":
            a = self.createActor(Remote, targetActorRequirements={"ip": msg[1]})
            self.kids.append((a, msg[1]))
            self.send(a, "where")
            self.log.append(("created-for", msg[1]))
        elif isinstance(msg, tuple) and msg[0] == "ask-child":
            for a, ip in self.kids:
                if ip == msg[1]:
                    self.send(a, "where")
                    self.log.append(("asked", ip))
        elif isinstance(msg, tuple) and msg[0] == "i-am":
            self.log.append(("child-answered", self.kid(sender)))
        elif isinstance(msg, PoisonMessage):
            self.log.append(("poison", repr(msg.poisonMessage), str(msg.details)[:80]))
        elif isinstance(msg, ChildActorExited):
            self.log.append(("child-exited", self.kid(msg.childAddress)))
        elif msg == "dump":
            self.send(sender, list(self.log))
        else:
            self.log.append(("other", type(msg).__name__, str(msg)[:60]))
