"""asyncio program of tools/conformance_asyncio.py: run on the real event loop (unit = 60 ms of real time) and on mc/vloop.py (unit = 1
virtual second).  It logs (label, elapsed units); events without a causal order are at least one unit apart, except the two timers
'tie-x' / 'tie-y' that are due at the same instant.  Only the order of the labels is compared."""
import asyncio


def build(log, unit, now):
    t0 = [None]

    def stamp(label):
        log.append((label, round((now() - t0[0]) / unit)))

    async def sleeper(name, delays):
        for i, d in enumerate(delays):
            await asyncio.sleep(d * unit)
            stamp(f"{name}{i}")
        return name

    async def producer(q):
        for i in range(3):
            await asyncio.sleep(4 * unit)
            await q.put(i)
            stamp(f"put{i}")
        await q.put(None)

    async def consumer(q):
        while True:
            item = await q.get()
            if item is None:
                stamp("consumer-done")
                return
            stamp(f"got{item}")
            await asyncio.sleep(1 * unit)

    async def slow():
        try:
            await asyncio.sleep(50 * unit)
        except asyncio.CancelledError:
            stamp("slow-cancelled")
            raise

    async def failing():
        await asyncio.sleep(9 * unit)
        stamp("failing-raises")
        raise ValueError("boom")

    async def main():
        t0[0] = now()
        loop = asyncio.get_running_loop()
        q = asyncio.Queue(maxsize=1)
        loop.call_later(6 * unit, stamp, "call_later-6")
        loop.call_later(1 * unit, stamp, "call_later-1")
        loop.call_soon(stamp, "call_soon")
        tasks = [asyncio.ensure_future(sleeper("a", [2, 7, 9])), asyncio.ensure_future(sleeper("b", [3, 8])),
                 asyncio.ensure_future(producer(q)), asyncio.ensure_future(consumer(q))]
        try:
            await asyncio.wait_for(slow(), timeout=5 * unit)
        except asyncio.TimeoutError:
            stamp("wait_for-timeout")
        results = await asyncio.gather(*tasks, failing(), return_exceptions=True)
        stamp("gathered")
        # ties: two timers for the same instant, and a timer together with a completed sleep
        loop.call_at(loop.time() + 2 * unit, stamp, "tie-x")
        loop.call_at(loop.time() + 2 * unit, stamp, "tie-y")
        await asyncio.sleep(3 * unit)
        done, pending = await asyncio.wait([asyncio.ensure_future(sleeper("c", [1])), asyncio.ensure_future(sleeper("d", [3]))], return_when=asyncio.FIRST_COMPLETED)
        stamp(f"first-completed-{len(done)}-{len(pending)}")
        for p in pending:
            p.cancel()
        await asyncio.sleep(0)
        stamp("end")
        return [type(r).__name__ if isinstance(r, Exception) else r for r in results]

    return main
