"""Actors of the Thespian conformance scenario (tools/conformance_thespian.py): the same classes run on the real Thespian system bases
and on mc/actorsim.py; every actor keeps a log of what it received and the logs are collected by the top actor."""
import datetime
from thespian.actors import Actor, ActorExitRequest, ChildActorExited, PoisonMessage, WakeupMessage, ActorSystem


class Grand(Actor):
    def __init__(self):
        super().__init__()
        self.log = []

    def receiveMessage(self, msg, sender):
        if isinstance(msg, tuple) and msg[0] == "hello":
            self.top = msg[1]
            self.log.append(("hello", sender == self.top))
        elif isinstance(msg, ActorExitRequest):
            self.log.append(("exit-request",))
            self.send(self.top, ("log", "grand", self.log))
        else:
            self.log.append(("other", type(msg).__name__))


class Child(Actor):
    def __init__(self):
        super().__init__()
        self.log = []
        self.seen = {}
        self.grand = None

    def receiveMessage(self, msg, sender):
        if isinstance(msg, tuple) and msg[0] == "n":
            self.log.append(("n", msg[1]))
            self.parent = sender
            if msg[1] == 0:
                self.grand = self.createActor(Grand)
                self.send(self.grand, ("hello", sender))
        elif msg == "boom-once":
            self.seen[msg] = self.seen.get(msg, 0) + 1
            self.log.append(("boom-once", self.seen[msg]))
            # a message sent before the handler fails
            self.send(sender, ("side-effect", self.seen[msg]))
            self.send(self.myAddress, ("self-send", self.seen[msg]))
            if self.seen[msg] == 1:
                raise RuntimeError("first delivery fails")
        elif msg == "boom-always":
            self.seen[msg] = self.seen.get(msg, 0) + 1
            self.log.append(("boom-always", self.seen[msg]))
            raise RuntimeError("always fails")
        elif isinstance(msg, dict):
            # mutable message: mutation before a failure must not be visible in the retry?
            self.log.append(("dict", dict(msg)))
            msg["touched"] = True
            if not self.seen.get("dict"):
                self.seen["dict"] = 1
                raise RuntimeError("fails after mutating")
        elif isinstance(msg, tuple) and msg[0] == "self-send":
            self.log.append(("self-send", msg[1], sender == self.myAddress))
        elif isinstance(msg, list):
            msg.append("mutated-by-child")
            self.log.append(("list", list(msg)))
        elif isinstance(msg, ActorExitRequest):
            self.log.append(("exit-request",))
            self.send(self.parent, ("log", "child", self.log))
        elif isinstance(msg, ChildActorExited):
            self.log.append(("child-exited", msg.childAddress == self.grand))
        else:
            self.log.append(("other", type(msg).__name__))


class Top(Actor):
    def __init__(self):
        super().__init__()
        self.log = []
        self.logs = {}

    def receiveMessage(self, msg, sender):
        if msg == "start":
            self.client = sender
            self.child = self.createActor(Child)
            for i in range(3):
                self.send(self.child, ("n", i))
            self.send(self.child, "boom-once")
            self.send(self.child, {"k": 1})
            self.send(self.child, "boom-always")
            self.send(self.child, ("n", 3))
            self.shared = ["from-top"]
            self.send(self.child, self.shared)
            self.wakeupAfter(datetime.timedelta(milliseconds=120), payload="tick")
            self.wakeupAfter(datetime.timedelta(milliseconds=40), payload="early")
        elif isinstance(msg, WakeupMessage) and msg.payload == "early":
            self.log.append(("wakeup", msg.payload, list(self.shared)))
        elif isinstance(msg, WakeupMessage) and msg.payload == "tick":
            self.log.append(("wakeup", msg.payload))
            self.send(self.child, ActorExitRequest())
            self.send(self.child, ("n", 50))  # queued behind the exit request
        elif isinstance(msg, PoisonMessage):
            self.log.append(("poison", msg.poisonMessage, sender == self.child))
        elif isinstance(msg, ChildActorExited):
            self.log.append(("child-exited", msg.childAddress == self.child))
            # a message to a dead actor
            self.send(self.child, ("n", 99))
            self.wakeupAfter(datetime.timedelta(milliseconds=50), payload="finish")
            self.finishing = True
        elif isinstance(msg, tuple) and msg[0] == "side-effect":
            self.log.append(("side-effect", msg[1]))
        elif isinstance(msg, tuple) and msg[0] == "log":
            self.logs[msg[1]] = msg[2]
            self.log.append(("log-from", msg[1]))
        else:
            self.log.append(("other", type(msg).__name__))
        if isinstance(msg, WakeupMessage) and msg.payload == "finish":
            self.send(self.client, {"top": self.log[:-1], **self.logs})
