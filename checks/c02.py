"""C02 -- every task gets exactly its clients; clients are partitioned over workers.

Bounded-exhaustive enumeration: (a) every schedule element of the grammar x every total client count (by pairing it with a
plain task of m clients before/after/alone), plus every schedule of length <= 3 over a reduced element alphabet, through the
real Allocator, against the reference invariants of sched_common; (b) every host list x client count through the real
calculate_worker_assignments; (c) every parallel element with every subset of sub-tasks excluded by the real task filter.
"""
import itertools

from mc import loadgen  # noqa: F401  (first: installs the virtual clock before esrally is imported)

from checks import sched_common as sc  # noqa: E402
from mc import par  # noqa: E402
from mc.core import Result

ID = "C02"
LEVEL = "exploration"
RULE = (
    "elements: Task(clients 1..3) and Parallel(1..3 sub-tasks with clients 1..3, cap in {None,1..4}, completed-by in {none, any, "
    "each sub-task}); schedules: each element alone / preceded / followed by a task with m in 1..6 clients (an element's allocation "
    "depends on the rest of the schedule only through the maximum client count), all schedules of length <= 3 over a reduced "
    "alphabet; every parallel element of the grammar between two tasks with every non-empty subset of its sub-tasks excluded by the real "
    "task filter (elements left empty by filters are whatever the real filters leave; more filter forms in C11 with these invariants); wire layer: 11 schedules, every column of the real allocation matrix through the real AsyncIoAdapter.run "
    "(schedule_for, parameter-source partitioning) of one worker on the virtual loop -- every client index of every task on the wire with exactly its iterations, issued by the client "
    "the matrix names; start_benchmark under two host layouts hands client c row c; layouts: every list of 1..3 (thorough 4) hosts with cores from "
    "the core alphabet x every client count. non-trivial = schedule with a parallel element or layout with > 1 worker; distinct = spec"
)
ASSUMPTIONS = [
    "reference invariants are written from the Allocator / calculate_worker_assignments docstrings and the statement (sched_common.py)",
]


def elements(tier):
    subs_alpha = (1, 2, 3) if tier == "thorough" else (1, 2, 3)
    out = [("T", c) for c in (1, 2, 3)]
    for n in (1, 2, 3):
        for subs in itertools.product(subs_alpha, repeat=n):
            if tier == "quick" and n == 3 and 3 in subs and subs.count(3) > 1:
                continue
            for cap in (None, 1, 2, 3, 4):
                for cb in [None, "any"] + list(range(n)):
                    out.append(("P", cap, list(subs), cb))
    return out


REDUCED = [
    ("T", 1),
    ("T", 3),
    ("P", None, [1, 2], None),
    ("P", 2, [2, 2, 1], 0),
    ("P", None, [3], "any"),
    ("P", 1, [1, 1], 1),
    ("P", 4, [1, 2], None),
]


def schedules(tier):
    els = elements(tier)
    # nothing left to run (e.g. an include filter that matches nothing): zero steps, still a well-formed plan
    yield []
    for el in els:
        yield [el]
        for m in range(1, 7):
            yield [("T", m), el]
            yield [el, ("T", m)]
    maxlen = 3
    for n in range(1, maxlen + 1):
        for combo in itertools.product(REDUCED, repeat=n):
            yield list(combo)


def check_schedule(spec, res):
    schedule = sc.build_schedule(spec)
    has_empty = any(el[0] == "P" and not el[2] for el in spec)
    # clients per element as the specification says (docs/track.rst: the parallel element's own clients, else the sum of its sub-tasks)
    counts = [el[1] if el[0] == "T" else (el[1] if el[1] is not None else sum(el[2])) for el in spec]
    v = sc.check_allocator(schedule, want_counts=counts)
    if v is None:
        w = sc.check_progress_walk(schedule)
        if w == "skipped":
            res.count("progress_walk_oracle_skipped")
        elif w:
            v = w
    if v is None and schedule:
        w = sc.check_partitioning(schedule)
        if w == "skipped":
            res.count("partitioning_oracle_skipped")
        elif w:
            v = w
    if v is None and schedule:
        # two layouts of load-driver hosts: at most one client per worker, and one worker simulating every client
        for hosts in (None, [{"host": "localhost", "cores": 1}]):
            w = sc.check_start_benchmark(schedule, hosts)
            if w == "skipped":
                res.count("start_benchmark_oracle_skipped")
            elif w and v is None:
                v = w
    res.case(
        case_repr={"schedule": spec} if res.sample_now(3001) else None,
        nontrivial_key=("s", repr(spec)) if any(el[0] == "P" for el in spec) else None,
        outcome_key=("s", v[0] if v else "ok", max([1] + [e.clients for e in schedule])),
    )
    if v:
        res.violation(
            f"allocator:{v[0]}" + (":empty-parallel" if has_empty else ""),
            f"schedule {spec}: {v[1]}",
            {"kind": "schedule", "spec": spec},
        )


def filtered_cases(tier):
    """schedules as the real task filters leave them: every parallel element of the grammar between two plain tasks, with every
    non-empty subset of its sub-tasks excluded by name (incl. all of them: the element must disappear, not stay behind empty)"""
    for el in elements(tier):
        if el[0] != "P":
            continue
        n = len(el[2])
        for k in range(1, n + 1):
            for drop in itertools.combinations(range(n), k):
                yield ([("T", 2), el, ("T", 1)], [f"e1_{j}" for j in drop])
        # two parallel elements of one challenge, the second one emptied as well
        for k in range(0, n + 1):
            for drop in itertools.combinations(range(n), k):
                if tier == "quick" and 0 < k < n:
                    continue
                yield ([("T", 2), el, ("P", None, [1, 2], None), ("T", 1)], [f"e1_{j}" for j in drop] + ["e2_0", "e2_1"])


def check_filtered(spec, drop, res):
    from esrally import config
    from esrally.track import loader, track

    schedule = sc.build_schedule(spec)
    ch = track.Challenge("c", default=True, schedule=schedule)
    trk = track.Track(name="t", challenges=[ch])
    cfg = config.Config()
    cfg.add(config.Scope.application, "track", "exclude.tasks", list(drop))
    v = None
    try:
        loader.TaskFilterTrackProcessor(cfg).on_after_load_track(trk)
    except Exception as e:  # noqa
        v = ("filter-raises", f"{type(e).__name__}: {e}")
    if v is None:
        left = [[t.name for t in el] for el in ch.schedule]
        want = [[n for n in ([f"e{k}"] if el[0] == "T" else [f"e{k}_{j}" for j in range(len(el[2]))]) if n not in drop] for k, el in enumerate(spec)]
        want = [w for w in want if w]
        if left != want:
            v = ("filter-result", f"filters left {left}, expected {want}")
        else:
            v = sc.check_allocator(ch.schedule)
            if v is None:
                w = sc.check_progress_walk(ch.schedule)
                if w == "skipped":
                    res.count("progress_walk_oracle_skipped")
                elif w:
                    v = w
    res.case(
        case_repr={"schedule": spec, "excluded_sub_tasks": drop} if res.sample_now(1009) else None,
        nontrivial_key=("f", repr(spec), tuple(drop)),
        outcome_key=("f", v[0] if v else "ok", len(ch.schedule)),
    )
    if v:
        res.violation(
            f"allocator:{v[0]}:after-filter" + (":element-emptied" if any(el[0] == "P" and all(f"e{k}_{j}" in drop for j in range(len(el[2]))) for k, el in enumerate(spec)) else ""),
            f"schedule {spec} with tasks {drop} excluded: {v[1]}",
            {"kind": "filtered", "spec": spec, "drop": drop},
        )


def check_layout(cores, clients, res):
    from esrally.driver import driver

    hosts = [{"host": f"h{i}", "cores": c} for i, c in enumerate(cores)]
    v = None
    try:
        asg = driver.calculate_worker_assignments(hosts, clients)
    except BaseException as e:  # noqa
        asg = None
        v = ("raises", f"{type(e).__name__}: {e}")
    if asg is not None:
        flat = [c for h in asg for w in h["workers"] for c in w]
        if [h["host"] for h in asg] != [h["host"] for h in hosts]:
            v = ("hosts", f"{[h['host'] for h in asg]}")
        elif sorted(flat) != list(range(clients)):
            v = ("loss-or-duplication", f"clients {sorted(flat)} instead of 0..{clients - 1}")
        elif flat != list(range(clients)):
            v = ("not-contiguous", f"order {flat}")
        else:
            for h, hc in zip(asg, hosts):
                ws = h["workers"]
                nonempty = [w for w in ws if w]
                if len(nonempty) > hc["cores"]:
                    v = ("more-workers-than-cores", f"host {hc} runs {len(nonempty)} workers: {ws}")
                    break
                for w in nonempty:
                    if w != list(range(w[0], w[0] + len(w))):
                        v = ("worker-range-not-contiguous", f"{w}")
                on_host = sum(len(w) for w in ws)
                # loads of the workers a host could run (one per core) differ by at most one client
                loads = sorted(len(w) for w in ws) + [0] * 0
                used = [l for l in loads if l]
                if used and (max(used) - min(used) > 1 or (len(used) < min(hc["cores"], on_host))):
                    v = ("unbalanced-workers", f"host {hc} with {on_host} clients: worker loads {[len(w) for w in ws]}")
                    break
    nworkers = sum(1 for h in (asg or []) for w in h["workers"] if w)
    res.case(
        case_repr={"cores": list(cores), "clients": clients, "assignment": asg} if res.sample_now(1009) else None,
        nontrivial_key=("l", cores, clients) if nworkers > 1 else None,
        outcome_key=("l", nworkers, v[0] if v else "ok"),
    )
    if v:
        res.violation(f"workers:{v[0]}", f"hosts cores={list(cores)} clients={clients}: {v[1]}", {"kind": "layout", "cores": list(cores), "clients": clients})


WIRE_SPECS = [
    [("T", 1)],
    [("T", 2)],
    [("T", 3)],
    [("T", 2), ("T", 3)],
    [("P", None, [1, 2], None)],
    [("P", None, [2, 2], None)],
    [("P", None, [3, 1], None), ("T", 2)],
    [("P", 2, [2, 2, 1], None)],
    [("P", 1, [1, 2], None)],
    [("P", 4, [1, 2], None)],
    [("T", 4), ("P", 3, [2, 3], None)],
]
WIRE_ITER = 2


def check_wire(spec, res):
    """where the client indices end up: every column of the real Allocator's matrix through the real AsyncIoAdapter.run of one worker
    (real schedule_for, real parameter-source partitioning) -- on the wire of the simulated cluster every client index of every task
    shows up with exactly its iterations, issued by the client the matrix gave it to"""
    import collections

    from esrally.driver import driver
    from esrally.track import track

    loadgen.setup()
    schedule, tasks = [], {}
    for k, el in enumerate(spec):
        if el[0] == "T":
            t = loadgen.make_task(f"e{k}", f"e{k}", clients=el[1], iterations=WIRE_ITER)
            tasks[f"e{k}"] = t
            schedule.append(t)
        else:
            subs = []
            for j, c in enumerate(el[2]):
                t = loadgen.make_task(f"e{k}_{j}", f"e{k}_{j}", clients=c, iterations=WIRE_ITER)
                tasks[f"e{k}_{j}"] = t
                subs.append(t)
            schedule.append(track.Parallel(subs, clients=el[1]))
    rows = driver.Allocator(schedule).allocations
    v = None
    seen = collections.Counter()
    if len({len(r) for r in rows}) != 1:
        v = ("matrix-not-rectangular", f"row lengths {[len(r) for r in rows]}")
    for col in range(len(rows[0]) if v is None else 0):
        allocs = [(cid, row[col]) for cid, row in enumerate(rows) if isinstance(row[col], driver.TaskAllocation)]
        if not allocs:
            continue
        try:
            r = loadgen.run_worker(allocs, lambda entry: {"service_time": 1.0, "body": {"ok": True}})
        except Exception as ex:  # noqa
            v = ("worker-raises", f"column {col}: {type(ex).__name__}: {ex}")
            break
        if r.error is not None or r.loop_errors:
            v = ("worker-raises", f"column {col}: {type(r.error).__name__ if r.error else ''}: {r.error} {r.loop_errors[:1]}")
            break
        owner = {(ta.task.name, ta.client_index_in_task): cid for cid, ta in allocs}
        for e in r.log:
            _, _, key, ci, _k, _w = e["target"].split("/")
            seen[(key, int(ci))] += 1
            if owner.get((key, int(ci))) != e["client_id"]:
                v = ("index-on-wrong-client", f"column {col}: client {e['client_id']} issued a request as index {ci} of task {key}; the matrix gives that index to client {owner.get((key, int(ci)))}")
                break
        if v:
            break
    if v is None:
        want = collections.Counter({(name, i): WIRE_ITER for name, t in tasks.items() for i in range(t.clients)})
        if seen != want:
            v = ("indices-executed", f"requests per (task, client index) on the wire {dict(sorted(seen.items()))}, expected {dict(sorted(want.items()))}")
    res.case(
        case_repr={"schedule": spec, "layer": "wire"},
        nontrivial_key=("w", repr(spec)),
        outcome_key=("w", v[0] if v else "ok", len(rows)),
    )
    if v:
        res.violation(f"wire:{v[0]}", f"schedule {spec}: {v[1]}", {"kind": "wire", "spec": spec})


def _shard(arg):
    import logging

    logging.disable(logging.CRITICAL)
    kind, items = arg
    res = Result()
    for it in items:
        if kind == "s":
            check_schedule(it, res)
        elif kind == "f":
            check_filtered(it[0], it[1], res)
        elif kind == "w":
            check_wire(it, res)
        else:
            check_layout(it[0], it[1], res)
    return res


def run(tier, seed):
    specs = list(schedules(tier))
    core_alpha = (1, 2, 3, 4, 8) if tier == "quick" else (1, 2, 3, 4, 8, 16)
    maxhosts = 3 if tier == "quick" else 4
    maxclients = 17 if tier == "quick" else 40
    layouts = []
    for n in range(1, maxhosts + 1):
        for cores in itertools.product(core_alpha, repeat=n):
            for clients in range(1, maxclients + 1):
                layouts.append((cores, clients))
    filtered = list(filtered_cases(tier))
    jobs = [("s", ch) for ch in par.chunks(specs, par.NPROC * 2)] + [("l", ch) for ch in par.chunks(layouts, par.NPROC)]
    jobs += [("f", ch) for ch in par.chunks(filtered, par.NPROC)]
    jobs += [("w", [w]) for w in WIRE_SPECS]
    res = par.pmap(_shard, jobs, seed=seed)
    res.extra["wire_schedules"] = len(WIRE_SPECS)
    res.extra["schedules"] = len(specs)
    res.extra["layouts"] = len(layouts)
    res.extra["filtered_schedules"] = len(filtered)
    res.states = res.evaluations
    res.transitions = res.evaluations
    return res


def replay(data):
    res = Result()
    if data["kind"] == "filtered":
        spec = [tuple(e) if e[0] == "T" else (e[0], e[1], list(e[2]), e[3]) for e in data["spec"]]
        check_filtered(spec, [d if isinstance(d, str) else f"e1_{d}" for d in data["drop"]], res)
    elif data["kind"] == "wire":
        spec = [tuple(e) if e[0] == "T" else (e[0], e[1], list(e[2]), e[3]) for e in data["spec"]]
        check_wire(spec, res)
    elif data["kind"] == "schedule":
        spec = [tuple(e) if e[0] == "T" else (e[0], e[1], list(e[2]), e[3]) for e in data["spec"]]
        check_schedule(spec, res)
    else:
        check_layout(tuple(data["cores"]), data["clients"], res)
    return [v for lst in res.violations.values() for v in lst]
