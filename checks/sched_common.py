"""Shared by C02 / C11 (and the race simulations): building schedules from small specs and the reference
invariants of the allocation matrix, written from the Allocator docstrings and the statement of C02."""


def mk_task(name, clients=1, op_type="search", tags=None, completes=False, any_completes=False, **kw):
    from esrally.track import track

    op = track.Operation(name + "-op", op_type, params={}, param_source="driver-test-param-source")
    return track.Task(name, op, tags=tags, clients=clients, completes_parent=completes, any_completes_parent=any_completes, **kw)


def build_schedule(spec):
    """spec: list of elements; element = ("T", clients) or ("P", cap, [clients...], completed_by) with completed_by in
    None | "any" | index.  Task names are e<k> / e<k>_<j>."""
    from esrally.track import track

    out = []
    for k, el in enumerate(spec):
        if el[0] == "T":
            out.append(mk_task(f"e{k}", clients=el[1]))
        else:
            _, cap, subs, cb = el
            tasks = []
            for j, c in enumerate(subs):
                tasks.append(mk_task(f"e{k}_{j}", clients=c, completes=(cb == j), any_completes=(cb == "any")))
            out.append(track.Parallel(tasks, clients=cap))
    return out


def leaves(element):
    return list(element)


def check_allocator(schedule, driver_mod=None, want_counts=None):
    """returns None or (clause, message).  `schedule` is a list of real track.Task / track.Parallel objects; want_counts: the number of
    clients every element uses according to the track specification (explicit clients of a parallel element, else the sum of its
    sub-tasks' clients), where the caller knows it independently of the objects' own `clients` property"""
    from esrally.driver import driver

    a = driver.Allocator(schedule)
    try:
        allocs = a.allocations
        jps = a.join_points
        tpj = a.tasks_per_joinpoint
        nclients = a.clients
    except Exception as e:  # noqa
        return ("allocator-raises", f"{type(e).__name__}: {e}")
    counts = list(want_counts) if want_counts is not None else [el.clients for el in schedule]
    want_clients = max([1] + counts)
    if nclients != want_clients or len(allocs) != want_clients:
        return ("client-count", f"allocator uses {nclients} clients / {len(allocs)} rows, schedule needs {want_clients}")
    width = len(allocs[0])
    if any(len(row) != width for row in allocs):
        return ("ragged-matrix", f"row lengths {[len(r) for r in allocs]}")
    # join point alignment
    jp_cols = [i for i, x in enumerate(allocs[0]) if isinstance(x, driver.JoinPoint)]
    for c, row in enumerate(allocs):
        cols = [i for i, x in enumerate(row) if isinstance(x, driver.JoinPoint)]
        if cols != jp_cols:
            return ("join-point-misaligned", f"client {c} has join points at {cols}, client 0 at {jp_cols}")
        for i in jp_cols:
            if row[i] is not allocs[0][i]:
                return ("join-point-not-shared", f"column {i}: client {c} holds a different join point object")
    if not jp_cols or jp_cols[0] != 0 or jp_cols[-1] != width - 1:
        return ("join-point-frame", f"join points at {jp_cols} in a matrix of width {width}")
    if len(jp_cols) != len(schedule) + 1:
        return ("join-point-count", f"{len(jp_cols)} join points for {len(schedule)} schedule elements")
    if [allocs[0][i].id for i in jp_cols] != list(range(len(jp_cols))):
        return ("join-point-ids", f"ids {[allocs[0][i].id for i in jp_cols]}")
    if len(jps) != len(jp_cols):
        return ("join-points-property", f"join_points has {len(jps)} entries, matrix has {len(jp_cols)}")
    # steps the driver walks: number_of_steps = len(join_points) - 1, one task set per step
    if len(tpj) != len(jps) - 1:
        return ("steps-vs-progress-entries", f"{len(jps) - 1} steps but {len(tpj)} entries in tasks_per_joinpoint")
    for k, el in enumerate(schedule):
        lo, hi = jp_cols[k], jp_cols[k + 1]
        el_tasks = leaves(el)
        seg = []
        for c, row in enumerate(allocs):
            for x in row[lo + 1 : hi]:
                if x is None:
                    continue
                if not isinstance(x, driver.TaskAllocation):
                    return ("foreign-entry", f"element {k}: {x!r}")
                seg.append((c, x))
        for t in el_tasks:
            idx = sorted(x.client_index_in_task for c, x in seg if x.task is t)
            if idx != list(range(t.clients)):
                return ("task-client-indices", f"element {k} task {t.name} wants clients 0..{t.clients - 1}, allocated indices {idx}")
        for c, x in seg:
            if not any(x.task is t for t in el_tasks):
                return ("task-outside-its-element", f"task {x.task.name} allocated in the segment of element {k}")
            if x.total_clients != counts[k]:
                return ("total-clients", f"element {k}: allocation of {x.task.name} says total_clients={x.total_clients}, element has {counts[k]}")
        g = sorted(x.global_client_index for c, x in seg)
        if g != list(range(len(g))):
            return ("global-client-index", f"element {k}: global indices {g}")
        # no client runs two allocations of one task, unless the element over-commits
        total = sum(t.clients for t in el_tasks)
        if total <= nclients:
            seen = {}
            for c, x in seg:
                if c in seen:
                    return ("client-doubly-loaded", f"element {k} needs {total} <= {nclients} clients but client {c} got two allocations")
                seen[c] = x
        if set(tpj[k]) != set(el_tasks) or len(tpj[k]) != len(el_tasks):
            return ("progress-entry-tasks", f"step {k}: tasks_per_joinpoint has {sorted(t.name for t in tpj[k])}, element has {[t.name for t in el_tasks]}")
        jp = allocs[0][hi]
        want_c = sorted(c for c, x in seg if x.task.completes_parent)
        want_a = sorted(c for c, x in seg if x.task.any_completes_parent and not x.task.completes_parent)
        if sorted(jp.clients_executing_completing_task) != want_c:
            return ("completing-clients", f"element {k}: join point lists {sorted(jp.clients_executing_completing_task)}, completing task runs on {want_c}")
        if sorted(jp.any_task_completes_parent) != want_a:
            return ("any-completing-clients", f"element {k}: join point lists {sorted(jp.any_task_completes_parent)}, expected {want_a}")
    return None


class _Recorder:
    def __init__(self):
        self.lines = []

    def print(self, *a):
        self.lines.append(a)

    def finish(self):
        self.lines.append("finish")


def check_progress_walk(schedule):
    """the real Driver.update_progress_message must work for every step index the driver walks (0 .. number_of_steps-1)"""
    from esrally.driver import driver

    a = driver.Allocator(schedule)
    try:
        d = object.__new__(driver.Driver)
        d.quiet = False
        d.tasks_per_join_point = a.tasks_per_joinpoint
        d.number_of_steps = len(a.join_points) - 1
        d.most_recent_sample_per_client = {}
        d.progress_reporter = _Recorder()
    except Exception:  # noqa -- the Driver's private layout changed: this sub-oracle does not apply
        return "skipped"
    for step in range(d.number_of_steps):
        d.current_step = step
        try:
            d.update_progress_message(task_finished=False)
            d.update_progress_message(task_finished=True)
        except (IndexError, KeyError) as e:
            return ("progress-walk", f"step {step} of {d.number_of_steps}: update_progress_message raised {type(e).__name__}: {e}")
        except (AttributeError, TypeError):
            return "skipped"
    return None


class _Stub:
    def __getattr__(self, name):
        return lambda *a, **k: None


def check_start_benchmark(schedule, hosts=None):
    """the real Driver.start_benchmark on a Driver whose collaborators are stubs: the number of steps the driver will walk equals the
    number of schedule elements, there is one task set per step, every client id is handed to exactly one worker, and the progress
    message works in every step.  Returns None, "skipped" or (clause, message)."""
    import logging

    from esrally.driver import driver

    hosts = hosts or [{"host": "localhost", "cores": 2}, {"host": "h2", "cores": 2}]
    started = []
    handed = []

    class Actor:
        def create_client(self, host, cfg, worker_id):
            return ("worker", worker_id)

        def start_worker(self, worker, worker_id, cfg, track, client_allocations, client_contexts=None):
            started.append((worker_id, sorted(client_contexts)))
            for a in client_allocations.allocations:
                handed.append((worker_id, a["client_id"], a["tasks"]))

    class Cfg:
        def opts(self, section, key, **kw):
            return type("O", (), {"all_client_options": {"default": {}}})()

    try:
        d = object.__new__(driver.Driver)
        d.logger = logging.getLogger("verif-null")
        d.metrics_store = _Stub()
        d.telemetry = _Stub()
        d.challenge = type("C", (), {"schedule": schedule})()
        d.config = Cfg()
        d.track = None
        d.load_driver_hosts = hosts
        d.driver_actor = Actor()
        d.clients_per_worker = {}
        d.client_contexts = {}
        d.workers = []
        d.quiet = False
        d.current_step = -1
        d.most_recent_sample_per_client = {}
        d.progress_reporter = _Recorder()
        d.default_sync_es_client = None
    except Exception:  # noqa
        return "skipped"
    try:
        d.start_benchmark()
    except (IndexError, KeyError, AssertionError) as e:
        return ("start-benchmark-raises", f"{type(e).__name__}: {e}")
    except (AttributeError, TypeError):
        return "skipped"  # the Driver's private layout changed: this sub-oracle does not apply
    want_steps = len(schedule)
    if d.number_of_steps != want_steps:
        return ("number-of-steps", f"the driver will walk {d.number_of_steps} steps, the schedule has {want_steps} elements")
    if len(d.tasks_per_join_point) != want_steps:
        return ("tasks-per-step", f"{len(d.tasks_per_join_point)} task sets for {want_steps} steps")
    nclients = max([1] + [el.clients for el in schedule])
    ids = sorted(c for _w, cs in started for c in cs)
    if ids != list(range(nclients)):
        return ("clients-started", f"client ids handed to workers {ids}, expected 0..{nclients - 1}")
    # the row of the allocation matrix a worker gets for client c is the Allocator's row c (what the client *does*), also when a worker
    # simulates several clients
    rows = driver.Allocator(schedule).allocations
    if sorted(c for _w, c, _t in handed) != list(range(nclients)):
        return ("rows-handed", f"allocation rows handed for clients {sorted(c for _w, c, _t in handed)}, expected 0..{nclients - 1}")
    for w, c, tasks in handed:
        if list(tasks) != list(rows[c]):
            return ("row-of-client", f"worker {w} got for client {c} a row that is not row {c} of the allocation matrix: {tasks} != {rows[c]}")
    for step in range(d.number_of_steps):
        d.current_step = step
        try:
            d.update_progress_message(task_finished=False)
            d.update_progress_message(task_finished=True)
        except (IndexError, KeyError) as e:
            return ("progress-walk", f"step {step} of {d.number_of_steps}: update_progress_message raised {type(e).__name__}: {e}")
    return None


def check_partitioning(schedule):
    """where the client indices are *used*: the real driver.schedule_for asks the task's parameter source for partition (k, n) -- over all
    clients the real Allocator gives a task, k must run through 0..task.clients-1 exactly once and n must be the task's own client count"""
    from esrally.driver import driver, runner

    if not _REG.get("runners"):
        runner.register_default_runners()
        _REG["runners"] = True
    calls = {}

    class Source:
        def __init__(self, task):
            self.task = task
            self.infinite = True
            self.percent_completed = None

        def partition(self, index, total):
            calls.setdefault(self.task.name, []).append((index, total))
            return self

        def params(self):
            return {}

    try:
        matrix = driver.Allocator(schedule).allocations
    except Exception:  # noqa -- reported by check_allocator
        return None
    for row in matrix:
        for ta in row:
            if isinstance(ta, driver.TaskAllocation):
                try:
                    driver.schedule_for(ta, Source(ta.task))
                except (AttributeError, TypeError, KeyError):
                    return "skipped"
    for el in schedule:
        for t in el:
            got = sorted(calls.get(t.name, []))
            want = [(k, t.clients) for k in range(t.clients)]
            if got != want:
                return ("parameter-source-partitions", f"task {t.name} with {t.clients} clients: partitions requested {got}, expected {want}")
    return None


_REG = {}
