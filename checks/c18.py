"""C18 -- request timings span all sub-requests and never leak between clients.

Stateless exploration on the virtual asyncio loop (ties between simultaneous timers are choice points):
 L1  the real request-context API on every tree of nested contexts from a small grammar (sequential / concurrent children,
     leaves = wire requests with delays and durations from a grid, contexts that outlive their last request);
 L2  the real Composite runner (RequestTiming, nested streams, max-connections, raw-request and sleep sub-operations) over
     the real Rally async client on the simulated node;
 L3  two clients running composites concurrently in one loop.
Oracle: every context's (start, end) = (earliest start, latest end) of exactly the wire requests issued below it.
"""
import asyncio
import itertools

from mc import vclock

vclock.install()

from mc import explore, fakees, par, vloop  # noqa: E402
from mc.core import Result  # noqa: E402
from mc.vclock import CLOCK  # noqa: E402

ID = "C18"
LEVEL = "model_checking"
RULE = (
    "L0: the trace signals of the real client from EsClientFactory.create_async fired in every sequence aiohttp can emit for one request; "
    "L1: every context tree of the grammar (root with 1..3 children; child = request leaf (delay, duration) or nested context with "
    "1..2 children, sequential or concurrent, optional idle time after its last request; third level single-request contexts; contexts "
    "that issue no request at all before / between / after real requests) with "
    "delays {0,1}, durations {1,4}, idle {0,2}; L2: 8 composite stream structures x every assignment of 3 sub-operation kinds x "
    "max-connections {1,2,unbounded}; L3: pairs of composites on two clients in one loop. Every order of simultaneously due timers "
    "is explored up to the deviation bound. non-trivial = at least two requests under one context; distinct = (tree, schedule)"
)
ASSUMPTIONS = [
    "a wire request is an on_request_start / on_request_end pair around a virtual-time wait (L1) or one request at the simulated node (L2, L3)",
    "asyncio nondeterminism = order of callbacks that fall due at the same virtual instant",
]

_ENV = {}

# ------------------------------------------------------------------------------------------------ L1


def leaves_alpha():
    return [("L", d, u) for d in (0, 1) for u in (1, 4)]


class LeafFailed(Exception):
    """a wire request that ends with an error (time-out, API error) after it was issued"""


def failing_trees():
    """the failing request is the last thing that happens below each context it is nested in (the error travels up to the root,
    which reads its timing afterwards, like the executor does for a failed request under on-error=continue)"""
    bad = [("X", d, u) for d in (0, 1) for u in (1, 4)]
    good = leaves_alpha()
    for x in bad:
        yield ("C", "seq", [x], 0)
        for g in good:
            yield ("C", "seq", [g, x], 0)
            yield ("C", "seq", [g, ("C", "seq", [x], 0)], 0)
            yield ("C", "seq", [("C", "seq", [g], 0), ("C", "seq", [x], 0)], 0)
            yield ("C", "seq", [g, ("C", "seq", [g, ("C", "seq", [x], 0)], 0)], 0)
            yield ("C", "seq", [("C", "par", [g, g], 0), ("C", "seq", [g, x], 0)], 0)


def idle_trees():
    """contexts that are entered and left without any wire request below them (a skipped or short-circuited step), before, between and
    after real requests, sequentially and concurrently: they record nothing and contribute nothing to their parent"""
    idle = [("E", d) for d in (0, 1, 3)]
    good = leaves_alpha()
    for e in idle:
        yield ("C", "seq", [e], 0)
        for g in good:
            for mode in ("seq", "par"):
                yield ("C", mode, [e, g], 0)
                yield ("C", mode, [g, e], 0)
                yield ("C", mode, [e, g, e], 0)
                yield ("C", mode, [g, e, g], 0)
                yield ("C", mode, [("C", "seq", [e], 0), g], 0)
                yield ("C", mode, [g, ("C", "seq", [e, ("C", "seq", [e], 2)], 0)], 0)


def ctx3_alpha():
    return [("C", "seq", [l], p) for l in leaves_alpha() for p in (0, 2)]


def ctx2_alpha(with_grand):
    kids = leaves_alpha() + (ctx3_alpha() if with_grand else [])
    out = []
    for p in (0, 2):
        for k in kids:
            out.append(("C", "seq", [k], p))
        for a, b in itertools.product(kids, repeat=2):
            for mode in ("seq", "par"):
                out.append(("C", mode, [a, b], p))
    return out


def trees(tier):
    a2 = leaves_alpha() + ctx3_alpha() + ctx2_alpha(tier == "thorough")
    for k in a2:
        yield ("C", "seq", [k], 0)
    for a, b in itertools.product(a2, repeat=2):
        for mode in ("seq", "par"):
            yield ("C", mode, [a, b], 0)
    a3 = leaves_alpha() + ctx3_alpha()
    for combo in itertools.product(a3, repeat=3):
        for mode in ("seq", "par"):
            yield ("C", mode, list(combo), 0)


def count_leaves(node):
    if node[0] == "E":
        return 0
    return 1 if node[0] in ("L", "X") else sum(count_leaves(c) for c in node[2])


async def run_node(node, holder, truth, obs, path):
    if node[0] == "E":
        with holder.new_request_context() as ctx:
            if node[1]:
                await asyncio.sleep(node[1])
            obs[path] = (ctx.request_start, ctx.request_end)
        return
    if node[0] in ("L", "X"):
        if node[1]:
            await asyncio.sleep(node[1])
        holder.on_request_start()
        s = CLOCK.now
        await asyncio.sleep(node[2])
        holder.on_request_end()
        truth[path] = (s, CLOCK.now)
        if node[0] == "X":
            raise LeafFailed(path)
        return
    _, mode, children, post = node
    with holder.new_request_context() as ctx:
        try:
            if mode == "seq":
                for i, ch in enumerate(children):
                    await run_node(ch, holder, truth, obs, path + (i,))
            else:
                await asyncio.gather(*[asyncio.create_task(run_node(ch, holder, truth, obs, path + (i,))) for i, ch in enumerate(children)])
            if post:
                await asyncio.sleep(post)
        except LeafFailed:
            if path:
                raise
        finally:
            if path or True:
                obs[path] = (ctx.request_start, ctx.request_end)


def span(truth, path):
    xs = [v for p, v in truth.items() if p[: len(path)] == path]
    if not xs:
        return (None, None)
    return (min(s for s, _ in xs), max(e for _, e in xs))


def classify(path, got, want, tree):
    kinds = []
    if got[0] != want[0]:
        kinds.append("start-none" if got[0] is None else ("start-too-late" if want[0] is not None and got[0] > want[0] else "start-too-early"))
    if got[1] != want[1]:
        kinds.append("end-none" if got[1] is None else ("end-too-early" if want[1] is not None and got[1] < want[1] else "end-too-late"))
    return "+".join(kinds)


def has_failure(node):
    if node[0] == "E":
        return False
    return node[0] == "X" or (node[0] == "C" and any(has_failure(c) for c in node[2]))


def has_concurrency(node):
    if node[0] in ("L", "X", "E"):
        return False
    return (node[1] == "par" and len(node[2]) > 1) or any(has_concurrency(c) for c in node[2])


def l1_run(tree, ch, res):
    from esrally.client import context

    holder = context.RequestContextHolder()
    truth, obs = {}, {}
    CLOCK.start()
    try:
        try:
            _, loop = vloop.run(run_node(tree, holder, truth, obs, ()), chooser=ch, horizon=10_000.0)
            err = loop.errors
        except Exception as e:  # noqa
            err = [f"{type(e).__name__}: {e}"]
    finally:
        CLOCK.stop()
    v = None
    if err:
        v = ("raises", f"{err[:1]}")
    else:
        for path in sorted(obs):
            want = span(truth, path)
            if obs[path] != want:
                v = (classify(path, obs[path], want, tree), f"context {path}: recorded {obs[path]}, its requests span {want}; requests {sorted(truth.items())}")
                break
    res.case(
        case_repr={"L1_tree": repr(tree), "schedule": list(ch.choices)} if res.sample_now(30011) else None,
        nontrivial_key=("L1", repr(tree), tuple(ch.choices)) if count_leaves(tree) >= 2 else None,
        outcome_key=("L1", tuple(sorted(obs.values(), key=repr))[:3], v[0] if v else "ok"),
    )
    if v:
        res.violation(
            f"ctx:L1:{v[0]}:{'concurrent' if has_concurrency(tree) else 'sequential'}" + (":failed-request" if has_failure(tree) else ""),
            f"tree {tree!r} schedule {list(ch.choices)}: {v[1]}",
            {"layer": 1, "tree": tree, "choices": list(ch.choices)},
        )


# ------------------------------------------------------------------------------------------------ L0 wiring of the HTTP client's trace signals


def signal_words():
    """what aiohttp can emit for one HTTP request: request start, 0..2 request chunks sent, then either an exception, or the request end
    (= response head received) followed by 0..3 response body chunks"""
    for sent in range(3):
        head = ["request_start"] + ["request_chunk_sent"] * sent
        # the exception kinds aiohttp reports through on_request_exception: client-side timeout, connection refused / reset, server
        # closed the connection
        for exc in ("timeout", "os-error", "disconnected"):
            yield head + ["request_exception:" + exc]
        for chunks in range(4):
            yield head + ["request_end"] + ["response_chunk_received"] * chunks


def signal_params(sig):
    """the parameter object aiohttp hands to a trace callback for this signal"""
    import aiohttp
    import aiohttp.tracing as tr
    import multidict
    import yarl

    url, hdrs = yarl.URL("http://127.0.0.1:9200/_search"), multidict.CIMultiDict()
    name, _, arg = sig.partition(":")
    if name == "request_start":
        return tr.TraceRequestStartParams("GET", url, hdrs)
    if name == "request_chunk_sent":
        return tr.TraceRequestChunkSentParams("GET", url, b"{}")
    if name == "request_end":
        return tr.TraceRequestEndParams("GET", url, hdrs, None)
    if name == "response_chunk_received":
        return tr.TraceResponseChunkReceivedParams("GET", url, b"{}")
    exc = {"timeout": asyncio.TimeoutError(), "os-error": aiohttp.ClientOSError(111, "connection refused"),
           "disconnected": aiohttp.ServerDisconnectedError()}[arg]
    return tr.TraceRequestExceptionParams("GET", url, hdrs, exc)


def l0_run(words, res):
    """the real client from EsClientFactory.create_async: its aiohttp TraceConfig is fired signal by signal (one virtual second apart) inside
    a request context; the context must record the time of request_start and the time of the LAST response-side signal"""
    env()
    es = fakees.make_async_client(client_id=7)
    tcs = [tc for nc in es.transport.node_pool.all() for tc in getattr(nc, "trace_configs", [])]
    v = None
    for word in words:
        if not tcs:
            v = ("wire-no-trace-config", "the client created by the factory has no aiohttp trace configuration")
        else:
            tc = tcs[0]

            async def fire():
                with es.new_request_context() as ctx:
                    times = {}
                    for i, sig in enumerate(word):
                        await asyncio.sleep(1)
                        times[i] = CLOCK.now
                        for cb in getattr(tc, "on_" + sig.split(":")[0]):
                            await cb(None, None, signal_params(sig))
                    return ctx.request_start, ctx.request_end, times

            CLOCK.start()
            try:
                (start, end, times), loop = vloop.run(fire(), chooser=explore.Chooser(()), horizon=1000.0)
            except Exception as ex:  # noqa
                v = ("wire-callback-raises", f"signals {word}: {type(ex).__name__}: {ex}")
                start = end = None
                times = None
            finally:
                CLOCK.stop()
        if v is None and tcs:
            want_start = times[0]
            want_end = max(t for i, t in times.items() if word[i].split(":")[0] in ("request_end", "response_chunk_received", "request_exception"))
            if (start, end) != (want_start, want_end):
                v = ("wire-signals", f"signals {word} one second apart: recorded ({start}, {end}), the request started at {want_start} and its last response-side signal came at {want_end}")
        res.case(case_repr={"L0_signals": word} if res.sample_now(5) else None, nontrivial_key=("L0", tuple(word)), outcome_key=("L0", len(word), v[0] if v else "ok"))
        if v:
            res.violation(f"ctx:L0:{v[0]}", v[1], {"layer": 0, "word": word})
            break


# ------------------------------------------------------------------------------------------------ L2 / L3

STRUCTS = [
    ("single", lambda a, b, c: [a]),
    ("sequential", lambda a, b, c: [a, b, c]),
    ("two-streams", lambda a, b, c: [{"stream": [a]}, {"stream": [b]}]),
    ("uneven-streams", lambda a, b, c: [{"stream": [a, b]}, {"stream": [c]}]),
    ("streams-then-op", lambda a, b, c: [{"stream": [a]}, {"stream": [b]}, c]),
    ("op-then-streams", lambda a, b, c: [a, {"stream": [b]}, {"stream": [c]}]),
    ("nested-streams", lambda a, b, c: [{"stream": [{"stream": [a]}, {"stream": [b]}]}, {"stream": [c]}]),
    ("three-streams", lambda a, b, c: [{"stream": [a]}, {"stream": [b]}, {"stream": [c]}]),
]
KINDS = ["fast", "slow", "sleep", "fail"]


def op(kind, name, prefix=""):
    if kind == "sleep":
        # unique durations identify the sleep in the ground-truth log
        return {"operation-type": "sleep", "name": name, "duration": {"a": 0.25, "b": 0.75, "c": 1.25}[name[-1]]}
    return {"operation-type": "raw-request", "name": name, "path": f"/{prefix}{name}-{kind}", "method": "GET"}


def behaviour(entry):
    t = entry["target"]
    if t.endswith("fail"):
        return {"service_time": 1.0, "status": 500, "body": {"error": {"type": "boom", "reason": "injected"}, "status": 500}}
    return {"service_time": 2.0 if t.endswith("slow") else 0.5, "body": {"ok": True}}


def env():
    if not _ENV:
        import logging

        logging.disable(logging.CRITICAL)
        fakees.install()
        from esrally.driver import runner

        runner.register_default_runners()
        _ENV["runner"] = runner
    return _ENV


async def composite_call(es, requests, maxconn, sleeps):
    runner = env()["runner"]
    # ground truth for sleep sub-operations (they issue no wire request): wrap the instance's hooks
    orig_s, orig_e = es.on_request_start, es.on_request_end
    open_ = {}

    def s():
        open_[asyncio.current_task()] = CLOCK.now
        orig_s()

    def e():
        t = asyncio.current_task()
        if t in open_:
            sleeps.append((open_.pop(t), CLOCK.now))
        orig_e()

    es.on_request_start, es.on_request_end = s, e
    try:
        params = {"requests": requests}
        if maxconn:
            params["max-connections"] = maxconn
        c = runner.Composite()
        with es.new_request_context() as ctx:
            try:
                r = await c(es, params)
            except Exception as ex:  # noqa -- a failed sub-request: the executor records the request with the timing seen so far
                r = {"failed": type(ex).__name__}
            return r, ctx.request_start, ctx.request_end
    finally:
        del es.on_request_start
        del es.on_request_end


def flatten_ops(requests):
    for it in requests:
        if "stream" in it:
            yield from flatten_ops(it["stream"])
        else:
            yield it


def check_composite_result(requests, result, outer, log, sleeps, client_id):
    """returns (clause, msg) or None"""
    mine = [e for e in log if e["client_id"] == client_id]
    leaves = [(e["t_start"], e["t_end"]) for e in mine] + list(sleeps)
    want = (min(s for s, _ in leaves), max(e for _, e in leaves)) if leaves else (None, None)
    if outer != want:
        return (classify((), outer, want, None), f"composite of client {client_id}: recorded {outer}, its requests span {want} (wire {[(e['target'], e['t_start'], e['t_end']) for e in mine]}, sleeps {sleeps})")
    if "failed" in result:
        return None
    timings = {t["dependent_timing"]["operation"]: t["dependent_timing"] for t in result["dependent_timing"] if t}
    ops = list(flatten_ops(requests))
    if sorted(timings) != sorted(o["name"] for o in ops):
        return ("sub-request-timings-missing", f"timings for {sorted(timings)}, operations {sorted(o['name'] for o in ops)}")
    for o in ops:
        t = timings[o["name"]]
        if o["operation-type"] == "sleep":
            cand = [x for x in sleeps if abs((x[1] - x[0]) - o["duration"]) < 1e-9]
            exp = cand[0] if cand else None
        else:
            ent = [e for e in mine if e["target"] == o["path"]]
            exp = (ent[0]["t_start"], ent[0]["t_end"]) if ent else None
        got = (t["request_start"], t["request_end"])
        if exp is None or got != exp:
            return ("sub-request-timing", f"sub-request {o['name']}: recorded {got}, issued {exp}")
        if abs(t["service_time"] - (exp[1] - exp[0])) > 1e-9:
            return ("sub-request-service-time", f"sub-request {o['name']}: service_time {t['service_time']} for {exp}")
    return None


def l2_run(cfg, ch, res):
    si, kinds, maxconn = cfg
    env()
    name, build = STRUCTS[si]
    requests = build(*[op(k, f"op-{n}") for k, n in zip(kinds, "abc")])
    CLOCK.start()
    fakees.CLUSTER.reset(behaviour)
    sleeps = []
    v = None
    try:
        try:
            es = fakees.make_async_client(0)
            (result, s, e), loop = vloop.run(composite_call(es, requests, maxconn, sleeps), chooser=ch, horizon=10_000.0)
            if loop.errors:
                v = ("loop-error", f"{loop.errors[:1]}")
            else:
                v = check_composite_result(requests, result, (s, e), fakees.CLUSTER.log, sleeps, 0)
        except Exception as ex:  # noqa
            v = ("raises", f"{type(ex).__name__}: {ex}")
    finally:
        CLOCK.stop()
    nops = len(list(flatten_ops(requests)))
    res.case(
        case_repr={"L2_composite": requests, "max-connections": maxconn, "schedule": list(ch.choices)} if res.sample_now(1009) else None,
        nontrivial_key=("L2", si, kinds, maxconn, tuple(ch.choices)) if nops >= 2 else None,
        outcome_key=("L2", name, v[0] if v else "ok", len(ch.choices)),
    )
    if v:
        res.violation(
            f"ctx:L2:{v[0]}:{name}" + (":failed-request" if "fail" in kinds else ""),
            f"composite {requests} max-connections={maxconn} schedule {list(ch.choices)}: {v[1]}",
            {"layer": 2, "cfg": [si, list(kinds), maxconn], "choices": list(ch.choices)},
        )


def l3_run(cfg, ch, res):
    (si_a, kinds_a), (si_b, kinds_b), offset = cfg
    env()
    req_a = STRUCTS[si_a][1](*[op(k, f"op-{n}", "A") for k, n in zip(kinds_a, "abc")])
    req_b = STRUCTS[si_b][1](*[op(k, f"op-{n}", "B") for k, n in zip(kinds_b, "abc")])
    CLOCK.start()
    fakees.CLUSTER.reset(behaviour)
    sl_a, sl_b = [], []
    v = None
    try:
        try:
            es_a, es_b = fakees.make_async_client(0), fakees.make_async_client(1)

            async def second():
                await asyncio.sleep(offset)
                return await composite_call(es_b, req_b, None, sl_b)

            async def main():
                ta = asyncio.create_task(composite_call(es_a, req_a, None, sl_a))
                tb = asyncio.create_task(second())
                return await asyncio.gather(ta, tb)

            (ra, rb), loop = vloop.run(main(), chooser=ch, horizon=10_000.0)
            if loop.errors:
                v = ("loop-error", f"{loop.errors[:1]}")
            else:
                v = check_composite_result(req_a, ra[0], (ra[1], ra[2]), fakees.CLUSTER.log, sl_a, 0) or check_composite_result(
                    req_b, rb[0], (rb[1], rb[2]), fakees.CLUSTER.log, sl_b, 1
                )
        except Exception as ex:  # noqa
            v = ("raises", f"{type(ex).__name__}: {ex}")
    finally:
        CLOCK.stop()
    res.case(
        case_repr={"L3_client_0": req_a, "L3_client_1": req_b, "offset": offset} if res.sample_now(499) else None,
        nontrivial_key=("L3", cfg, tuple(ch.choices)),
        outcome_key=("L3", v[0] if v else "ok", len(ch.choices)),
    )
    if v:
        res.violation(
            f"ctx:L3:{v[0]}:two-clients",
            f"client 0 {req_a} / client 1 {req_b} offset {offset} schedule {list(ch.choices)}: {v[1]}",
            {"layer": 3, "cfg": [[si_a, list(kinds_a)], [si_b, list(kinds_b)], offset], "choices": list(ch.choices)},
        )


# ------------------------------------------------------------------------------------------------ L4 consecutive requests of one client

L4_CASES = [
    (2, ("fail", "slow", "fast")),  # two streams: one fails while its sibling is still in flight, then the client's next request starts
    (2, ("slow", "fail", "fast")),
    (7, ("fail", "slow", "fast")),
    (7, ("fast", "fail", "slow")),
    (4, ("fail", "slow", "fast")),
    (3, ("fail", "fast", "slow")),
    (2, ("fast", "slow", "fast")),
    (1, ("fast", "fail", "fast")),
]


def l4_run(cfg, ch, res):
    """three consecutive invocations of a composite by ONE client through the real AsyncExecutor (on-error=continue): what an invocation
    leaves behind (sub-streams still in flight after a sibling failed) must not show up in the timing of the next request"""
    from esrally.track import track

    from mc import loadgen
    from mc.vclock import EPOCH

    si, kinds = cfg
    env()
    loadgen.setup()
    requests = STRUCTS[si][1](*[op(k, f"op-{n}") for k, n in zip(kinds, "abc")])
    o = track.Operation("comp-op", "composite", params={"requests": requests, "task-key": "comp"}, param_source=loadgen.SOURCE)
    task = track.Task("comp", o, clients=1, iterations=3)
    v = None
    try:
        r = loadgen.run_worker([(0, loadgen.allocation(task, 0))], behaviour, on_error="continue", chooser=ch, horizon=10_000.0)
        if r.error is not None or r.loop_errors:
            v = ("raises", f"{type(r.error).__name__ if r.error else ''}: {r.error} {r.loop_errors[:1]}")
        else:
            ss = sorted(r.samples, key=lambda x: x.absolute_time)
            issues = [x.absolute_time - EPOCH for x in ss]
            wire = sorted((e for e in r.log if e["client_id"] == 0), key=lambda e: e["t_start"])
            if len(ss) != 3:
                v = ("sample-count", f"{len(ss)} samples for 3 invocations")
            for k, smp in enumerate(ss):
                if v:
                    break
                hi = issues[k + 1] if k + 1 < len(ss) else float("inf")
                own = [e for e in wire if issues[k] - 1e-9 <= e["t_start"] < hi - 1e-9]
                if not own:
                    v = ("no-wire-request", f"invocation {k} issued at {issues[k]} has no wire request")
                elif abs(smp.request_start - own[0]["t_start"]) > 1e-9:
                    v = ("start-of-another-request" if smp.request_start < issues[k] - 1e-9 else "start-too-late",
                         f"invocation {k} (issued at {issues[k]}): recorded request_start {smp.request_start}, its first wire request started at {own[0]['t_start']}; "
                         f"wire {[(e['target'], e['t_start'], e['t_end']) for e in wire]}")
                elif smp.service_time < -1e-9 or smp.request_start + smp.service_time > max(e["t_end"] for e in own) + 1e-9:
                    v = ("end-outside-request", f"invocation {k}: recorded start {smp.request_start} + service time {smp.service_time}, its wire requests end by {max(e['t_end'] for e in own)}")
    except Exception as ex:  # noqa
        v = ("raises", f"{type(ex).__name__}: {ex}")
    res.case(
        case_repr={"L4_composite_three_times": requests, "schedule": list(ch.choices)} if res.sample_now(101) else None,
        nontrivial_key=("L4", si, kinds, tuple(ch.choices)),
        outcome_key=("L4", STRUCTS[si][0], v[0] if v else "ok", len(ch.choices)),
    )
    if v:
        res.violation(
            f"ctx:L4:{v[0]}:{STRUCTS[si][0]}" + (":failed-request" if "fail" in kinds else ""),
            f"one client, composite {requests} three times, schedule {list(ch.choices)}: {v[1]}",
            {"layer": 4, "cfg": [si, list(kinds)], "choices": list(ch.choices)},
        )


def _job(arg):
    import logging

    logging.disable(logging.CRITICAL)
    layer, items, bound = arg
    res = Result()
    fn = {1: l1_run, 2: l2_run, 3: l3_run, 4: l4_run}[layer]
    for it in items:
        explore.explore_subtree(lambda ch, r, it=it: fn(it, ch, r), (), bound, res, max_exec=400)
    return res


def run(tier, seed):
    bound = 1 if tier == "quick" else 2
    t = list(trees(tier)) + list(failing_trees()) + list(idle_trees())
    l2 = [(si, kinds, mc) for si in range(len(STRUCTS)) for kinds in itertools.product(KINDS, repeat=3) for mc in (None, 1, 2)]
    pairs = [(2, ("slow", "fast", "fast")), (3, ("fast", "sleep", "slow")), (6, ("slow", "fast", "sleep")), (0, ("fast", "fast", "fast"))]
    l3 = [(a, b, off) for a in pairs for b in pairs for off in (0, 0.25, 1.0)]
    jobs = [(1, chk, bound) for chk in par.chunks(t, par.NPROC * 6)] + [(2, chk, bound) for chk in par.chunks(l2, par.NPROC)] + [(3, chk, bound) for chk in par.chunks(l3, par.NPROC)]
    jobs += [(4, [c], bound) for c in L4_CASES]
    res = par.pmap(_job, jobs, seed=seed)
    res.extra["L4_sequences"] = len(L4_CASES)
    words = list(signal_words())
    l0_run(words, res)
    res.extra["L0_signal_sequences"] = len(words)
    res.extra["L1_trees"] = len(t)
    res.extra["L2_composites"] = len(l2)
    res.extra["L3_pairs"] = len(l3)
    res.bound_completed = bound if res.exhaustive else f"{bound} (capped)"
    res.states = res.evaluations
    return res


def replay(data):
    import logging

    logging.disable(logging.CRITICAL)
    res = Result()
    ch = explore.Chooser(tuple(data.get("choices", ())))

    def tup(n):
        if n[0] == "E":
            return ("E", n[1])
        return (n[0], n[1], n[2]) if n[0] in ("L", "X") else ("C", n[1], [tup(c) for c in n[2]], n[3])

    if data["layer"] == 0:
        l0_run([data["word"]], res)
    elif data["layer"] == 1:
        l1_run(tup(data["tree"]), ch, res)
    elif data["layer"] == 2:
        si, kinds, mc = data["cfg"]
        l2_run((si, tuple(kinds), mc), ch, res)
    elif data["layer"] == 4:
        l4_run((data["cfg"][0], tuple(data["cfg"][1])), ch, res)
    else:
        a, b, off = data["cfg"]
        l3_run(((a[0], tuple(a[1])), (b[0], tuple(b[1])), off), ch, res)
    return [v for lst in res.violations.values() for v in lst]
