"""C10 -- a loaded track is exactly what the file says; invalid tracks are rejected.

Bounded-exhaustive generation from a track grammar; every model is serialised in three spellings (plain JSON; Jinja track
parameters with defaults and user-supplied values; parts pulled in with rally.collect, incl. a nested collect) into a scratch
track directory and read by the real TrackFileReader.read (template assembly, Jinja rendering, JSON schema, specification
reader, parameter accounting).  Reference expect(model) is written independently of the loader; single-rule violations of
valid models must be rejected with a Rally error.
"""
import copy
import itertools
import json
import os
import shutil
import tempfile

from mc import par
from mc.core import Result

ID = "C10"
LEVEL = "exploration"
RULE = (
    "models: (T) single-task tracks over loop keys {none, iterations, warm-up+iterations, time, warm-up+time, +ramp-up} x clients x "
    "throughput {none, number, 'n docs/s', interval} x tags {none, string, list} x name x schedule x meta x operation form {reference, "
    "inline, bare string}; (P) parallel elements: defaults group x clients x completed-by {none, task, any} x child overrides x 1..3 children; "
    "(C) challenge forms {schedule, challenge, challenges 1..2 with default flags and selection}; (D) corpora: 0..2 corpora x 1..2 document "
    "sets x {archive, plain} x sizes x action-and-meta-data x indices xor data streams x target defaults; (F) index bodies, composable and "
    "component templates in their own files using track parameters that appear nowhere else (absent / user-supplied); each in 3 spellings. invalid: 24 "
    "single-rule violations applied to 4 base models. non-trivial = every model (each differs in at least one attribute); distinct = (model, spelling)"
)
ASSUMPTIONS = [
    "reference expect(model): clients default 1; task name defaults to the operation name; parallel defaults inherited unless the task sets its own; "
    "a tag string is one tag; include-in-reporting defaults to True for non-admin operations; archive file names lose their last extension",
    "rally.collect globs that match several files are only used where order does not matter (operations) or compared order-insensitively (challenges)",
]

_S = {}
SENT_CLIENTS = 987001
SENT_BULK = 987002


def scratch():
    if _S.get("pid") != os.getpid():
        _S["dir"] = tempfile.mkdtemp(prefix="verif-c10-")
        _S["pid"] = os.getpid()
        _S["n"] = 0
        import atexit

        d = _S["dir"]
        atexit.register(lambda: shutil.rmtree(d, ignore_errors=True))
    return _S["dir"]


def cfg_for(track_params, challenge=None):
    from esrally import config

    cfg = config.Config()
    A = config.Scope.application
    cfg.add(A, "node", "rally.root", os.path.join(os.environ.get("VERIF_REPO", "/repo"), "esrally"))
    cfg.add(A, "track", "params", dict(track_params))
    if challenge:
        cfg.add(A, "track", "challenge.name", challenge)
    return cfg


# ------------------------------------------------------------------------------------------------ model -> files

OPS = [
    {"name": "op-search", "operation-type": "search", "body": {"query": {"match_all": {}}}},
    {"name": "op-bulk", "operation-type": "bulk", "bulk-size": 100},
    {"name": "op-fm", "operation-type": "force-merge", "meta": {"m": 1}},
    {"name": "op-custom", "operation-type": "my-custom-op", "param-source": "my-source", "x": [1, 2]},
]


def base_model():
    return {"version": 2, "description": "d", "indices": [{"name": "idx"}], "operations": copy.deepcopy(OPS),
            "challenges": [{"name": "main", "default": True, "schedule": [{"operation": "op-search"}]}]}


def write_track(model, spelling, track_params_extra=None):
    """returns (track file, track params)"""
    _S["n"] = _S.get("n", 0) + 1
    d = os.path.join(scratch(), f"t{_S['n']}")
    os.makedirs(d)
    params = dict(track_params_extra or {})
    m = copy.deepcopy(model)
    files = m.pop("_files", {})
    params.update(m.pop("_params", {}))
    m.pop("_expect", None)
    for rel, content in files.items():
        fp = os.path.join(d, rel)
        os.makedirs(os.path.dirname(fp), exist_ok=True)
        with open(fp, "w", encoding="utf-8") as f:
            f.write(content)
    raw = m.pop("_raw", None)
    m.pop("_expect_model", None)
    if raw is not None:
        text = raw
    elif spelling == "plain":
        text = json.dumps(m, indent=1)
    elif spelling == "jinja":
        # numbers become template expressions: user-supplied value for clients, default for bulk-size
        def mark(o):
            if isinstance(o, dict):
                for k, v in list(o.items()):
                    if k == "clients" and isinstance(v, int) and not isinstance(v, bool):
                        o[k] = SENT_CLIENTS * 100 + v
                    elif k == "bulk-size" and isinstance(v, int):
                        o[k] = SENT_BULK * 1000 + v
                    else:
                        mark(v)
            elif isinstance(o, list):
                for x in o:
                    mark(x)

        mark(m)
        text = json.dumps(m, indent=1)
        import re

        used = set()

        def repl_c(mo):
            v = int(mo.group(1))
            used.add(v)
            return "{{ p_clients_%d | default(%d) }}" % (v, v + 40)

        text = re.sub(r"\b%d(\d\d)\b" % SENT_CLIENTS, repl_c, text)
        text = re.sub(r"\b%d(\d\d\d)\b" % SENT_BULK, lambda mo: "{{ bulk_size_%s | default(%d) }}" % (mo.group(1), int(mo.group(1))), text)
        for v in used:
            params[f"p_clients_{v}"] = v
        text = "{# a comment #}\n{% set unused_local = 3 %}\n" + text
    else:  # parts
        os.makedirs(os.path.join(d, "operations"))
        for i, op in enumerate(m.get("operations", [])):
            with open(os.path.join(d, "operations", f"op{i}.json"), "w") as f:
                json.dump(op, f)
        ops_present = "operations" in m
        m.pop("operations", None)
        key = "challenges" if "challenges" in m else ("challenge" if "challenge" in m else None)
        chal_text = None
        if key == "challenges":
            os.makedirs(os.path.join(d, "challenges", "schedules", "c0"))
            for i, ch in enumerate(m["challenges"]):
                ch = copy.deepcopy(ch)
                if i == 0:
                    # nested collect, relative to the including part's directory
                    with open(os.path.join(d, "challenges", "schedules", "c0", "s.json"), "w") as f:
                        f.write(",\n".join(json.dumps(e) for e in ch["schedule"]))
                    ch["schedule"] = ["@@NESTED@@"]
                txt = json.dumps(ch).replace('"@@NESTED@@"', '{{ rally.collect(parts="schedules/c0/*.json") }}')
                with open(os.path.join(d, "challenges", f"ch{i}.json"), "w") as f:
                    f.write(txt)
            m["challenges"] = ["@@CH@@"]
        text = json.dumps(m, indent=1)
        text = text.replace('"@@CH@@"', '{{ rally.collect(parts="challenges/*.json") }}')
        if ops_present:
            text = text[: text.rindex("}")] + ',\n "operations": [ {{ rally.collect(parts="operations/*.json") }} ]\n}'
    path = os.path.join(d, "track.json")
    with open(path, "w", encoding="utf-8") as f:
        f.write(text)
    return path, params, d


# ------------------------------------------------------------------------------------------------ reference

ADMIN_OPS = {"force-merge", "sleep"}


def expect_operation(op_spec, ops_by_name):
    if isinstance(op_spec, str) and op_spec in ops_by_name:
        op_spec = ops_by_name[op_spec]
    if isinstance(op_spec, str):
        # (a string that is no built-in operation type is a user-defined type: no reporting default is added)
        builtin = op_spec in ("search", "bulk", "force-merge", "raw-request", "sleep")
        return {"name": op_spec, "type": op_spec, "meta": {}, "param_source": None,
                "params": {"include-in-reporting": op_spec not in ADMIN_OPS} if builtin else {}}
    typ = op_spec["operation-type"]
    params = dict(op_spec)
    known = typ in ("search", "bulk", "force-merge", "raw-request", "sleep")
    if known and "include-in-reporting" not in params:
        params["include-in-reporting"] = typ not in ADMIN_OPS
    return {"name": op_spec.get("name", typ), "type": typ, "meta": op_spec.get("meta") or {}, "param_source": op_spec.get("param-source"), "params": params}


def expect_task(spec, ops_by_name, defaults=None, completed_by=None):
    defaults = defaults or {}
    op = expect_operation(spec["operation"], ops_by_name)
    tags = spec.get("tags")
    name = spec.get("name", op["name"])
    thr = None
    if spec.get("target-interval") is not None:
        thr = (1.0 / float(spec["target-interval"]), "ops/s")
    elif spec.get("target-throughput") is not None:
        tv = spec["target-throughput"]
        if isinstance(tv, str):
            thr = (float(tv.split()[0]), tv.split()[1])
        else:
            thr = (float(tv), "ops/s")
    return {
        "kind": "task",
        "name": name,
        "operation": op,
        "clients": spec.get("clients", 1),
        "warmup_iterations": spec.get("warmup-iterations", defaults.get("warmup-iterations")),
        "iterations": spec.get("iterations", defaults.get("iterations")),
        "warmup_time_period": spec.get("warmup-time-period", defaults.get("warmup-time-period")),
        "time_period": spec.get("time-period", defaults.get("time-period")),
        "ramp_up_time_period": spec.get("ramp-up-time-period", defaults.get("ramp-up-time-period")),
        "tags": [tags] if isinstance(tags, str) else (tags or []),
        "meta": spec.get("meta") or {},
        "schedule": spec.get("schedule"),
        "completes_parent": completed_by is not None and completed_by == name,
        "any_completes_parent": completed_by == "any",
        "throughput": thr,
        "params": {k: v for k, v in spec.items() if k != "operation"},
    }


def expect_schedule(schedule, ops_by_name):
    out = []
    for el in schedule:
        if "parallel" in el:
            p = el["parallel"]
            defaults = {k: p[k] for k in ("warmup-iterations", "iterations", "warmup-time-period", "time-period", "ramp-up-time-period") if k in p}
            tasks = [expect_task(t, ops_by_name, defaults, p.get("completed-by")) for t in p["tasks"]]
            out.append({"kind": "parallel", "clients": p.get("clients", sum(t["clients"] for t in tasks)), "tasks": tasks})
        else:
            out.append(expect_task(el, ops_by_name))
    return out


def expect(model):
    ops_by_name = {}
    for o in model.get("operations", []):
        e = expect_operation(o, {})
        ops_by_name[e["name"]] = o
    if "schedule" in model:
        chs = [{"name": "default", "schedule": model["schedule"], "_auto": True}]
    elif "challenge" in model:
        chs = [model["challenge"]]
    else:
        chs = model["challenges"]
    challenges = []
    for ch in chs:
        challenges.append({
            "name": ch["name"],
            "default": len(chs) == 1 or bool(ch.get("default")),
            "auto_generated": bool(ch.get("_auto")),
            "description": ch.get("description"),
            "schedule": expect_schedule(ch["schedule"], ops_by_name),
        })
    corpora = []
    n_idx = len(model.get("indices", []))
    n_ds = len(model.get("data-streams", []))
    for c in model.get("corpora", []):
        docs = []
        c_idx = c.get("target-index", model["indices"][0]["name"] if n_idx == 1 else None) if n_idx else None
        c_ds = c.get("target-data-stream", model["data-streams"][0]["name"] if n_ds == 1 else None) if n_ds else None
        for dspec in c["documents"]:
            sf = dspec["source-file"]
            archive = sf if sf.endswith((".bz2", ".gz", ".zst", ".zip", ".tar")) else None
            meta = dspec.get("includes-action-and-meta-data", c.get("includes-action-and-meta-data", False))
            docs.append({
                "document_file": os.path.splitext(sf)[0] if archive else sf,
                "document_archive": archive,
                "number_of_documents": dspec["document-count"],
                "compressed": dspec.get("compressed-bytes"),
                "uncompressed": dspec.get("uncompressed-bytes"),
                "meta_lines": bool(meta),
                "target_index": None if meta else dspec.get("target-index", c_idx),
                "target_data_stream": None if meta else dspec.get("target-data-stream", c_ds),
                "base_url": dspec.get("base-url", c.get("base-url")),
            })
        corpora.append({"name": c["name"], "documents": docs})
    out = {"challenges": challenges, "corpora": corpora, "indices": [i["name"] for i in model.get("indices", [])],
           "data_streams": [i["name"] for i in model.get("data-streams", [])], "description": model.get("description", "")}
    out.update(model.get("_expect", {}))
    return out


def observe(trk):
    from esrally.track import track

    def obs_op(op):
        return {"name": op.name, "type": op.type, "meta": op.meta_data or {}, "param_source": op.param_source, "params": op.params}

    def obs_task(t):
        tt = t.target_throughput
        return {
            "kind": "task", "name": t.name, "operation": obs_op(t.operation), "clients": t.clients, "warmup_iterations": t.warmup_iterations,
            "iterations": t.iterations, "warmup_time_period": t.warmup_time_period, "time_period": t.time_period,
            "ramp_up_time_period": t.ramp_up_time_period, "tags": t.tags, "meta": t.meta_data or {}, "schedule": t.schedule,
            "completes_parent": t.completes_parent, "any_completes_parent": t.any_completes_parent,
            "throughput": (tt.value, tt.unit) if tt else None, "params": {k: v for k, v in t.params.items() if k != "operation"},
        }

    chs = []
    for ch in trk.challenges:
        sched = []
        for el in ch.schedule:
            if isinstance(el, track.Parallel):
                sched.append({"kind": "parallel", "clients": el.clients, "tasks": [obs_task(t) for t in el.tasks]})
            else:
                sched.append(obs_task(el))
        chs.append({"name": ch.name, "default": bool(ch.default), "auto_generated": bool(ch.auto_generated), "description": ch.description, "schedule": sched})
    corpora = []
    for c in trk.corpora:
        corpora.append({"name": c.name, "documents": [{
            "document_file": d.document_file, "document_archive": d.document_archive, "number_of_documents": d.number_of_documents,
            "compressed": d.compressed_size_in_bytes, "uncompressed": d.uncompressed_size_in_bytes, "meta_lines": bool(d.includes_action_and_meta_data),
            "target_index": d.target_index, "target_data_stream": d.target_data_stream, "base_url": d.base_url} for d in c.documents]})
    out = {"challenges": chs, "corpora": corpora, "indices": [i.name for i in trk.indices], "data_streams": [d.name for d in trk.data_streams],
           "description": trk.description}
    if any(i.body for i in trk.indices):
        out["index_bodies"] = [i.body for i in trk.indices]
    if trk.templates or trk.composable_templates or trk.component_templates:
        out["templates"] = [[t.name, t.pattern, t.content] for t in trk.templates + trk.composable_templates] + [[t.name, None, t.content] for t in trk.component_templates]
    return out


def first_diff(a, b, path=""):
    if isinstance(a, dict) and isinstance(b, dict):
        for k in sorted(set(a) | set(b)):
            if k not in a or k not in b:
                return f"{path}/{k}: {'missing in track' if k not in b else 'unexpected in track'} ({a.get(k)!r} vs {b.get(k)!r})"
            d = first_diff(a[k], b[k], f"{path}/{k}")
            if d:
                return d
        return None
    if isinstance(a, (list, tuple)) and isinstance(b, (list, tuple)):
        if len(a) != len(b):
            return f"{path}: {len(a)} expected, {len(b)} in track ({a!r} vs {b!r})"[:400]
        for i, (x, y) in enumerate(zip(a, b)):
            d = first_diff(x, y, f"{path}[{i}]")
            if d:
                return d
        return None
    if isinstance(a, float) or isinstance(b, float):
        return None if a is not None and b is not None and abs(a - b) < 1e-9 else f"{path}: expected {a!r}, track has {b!r}"
    return None if a == b else f"{path}: expected {a!r}, track has {b!r}"


def check_valid(model, spelling, res, label, challenge_sel=None):
    from esrally import exceptions
    from esrally.track import loader

    path, params, d = write_track(model, spelling)
    v = None
    try:
        reader = loader.TrackFileReader(cfg_for(params, challenge_sel))
        trk = reader.read("verif", path, d)
        want = expect(model.get("_expect_model", model))
        got = observe(trk)
        if spelling == "parts":
            want["challenges"].sort(key=lambda c: c["name"])
            got["challenges"].sort(key=lambda c: c["name"])
        if spelling == "jinja":
            # the template supplies default(n+40) but the user parameter (n) must win; bulk-size uses the default (= n)
            pass
        diff = first_diff(want, got)
        if diff:
            clause = diff.split(":")[0].split("/")[-1]
            clause = "".join(ch for ch in clause if not ch.isdigit() and ch not in "[]")
            v = (f"attribute-{clause}", diff)
        elif challenge_sel and [c.name for c in trk.challenges if c.selected] != [challenge_sel]:
            v = ("challenge-selection", f"{[c.name for c in trk.challenges if c.selected]}")
    except exceptions.RallyError as e:
        v = ("valid-track-rejected", f"{type(e).__name__}: {str(e)[:300]}")
    except Exception as e:  # noqa
        v = ("loader-crashes", f"{type(e).__name__}: {str(e)[:300]}")
    finally:
        shutil.rmtree(d, ignore_errors=True)
    res.case(
        case_repr={"model": label, "spelling": spelling, "track": json.dumps(model)[:600]} if res.sample_now(1501) else None,
        nontrivial_key=(label, spelling),
        outcome_key=("valid", spelling, v[0] if v else "ok", label.split(":")[0]),
    )
    if v:
        res.violation(f"track:{v[0]}:{spelling}", f"{label} [{spelling}]: {v[1]}", {"kind": "valid", "model": model, "spelling": spelling, "label": label, "sel": challenge_sel})


def check_invalid(model, rule, spelling, res, label, params_extra=None, challenge_sel=None):
    from esrally import exceptions
    from esrally.track import loader

    path, params, d = write_track(model, spelling, params_extra)
    v = None
    try:
        reader = loader.TrackFileReader(cfg_for(params, challenge_sel))
        reader.read("verif", path, d)
        v = ("invalid-track-loaded", f"rule [{rule}] violated but the track was loaded")
    except exceptions.RallyError:
        pass
    except Exception as e:  # noqa
        v = ("invalid-track-crashes-loader", f"rule [{rule}]: {type(e).__name__}: {str(e)[:200]}")
    finally:
        shutil.rmtree(d, ignore_errors=True)
    res.case(nontrivial_key=("invalid", label, rule, spelling), outcome_key=("invalid", rule, v[0] if v else "rejected"))
    if v:
        res.violation(f"track:{v[0]}:{rule}", f"{label} [{spelling}] {v[1]}", {"kind": "invalid", "model": model, "rule": rule, "spelling": spelling, "label": label, "params": params_extra, "challenge": challenge_sel})


# ------------------------------------------------------------------------------------------------ generators

LOOPS = [{}, {"iterations": 5}, {"warmup-iterations": 2, "iterations": 3}, {"time-period": 10}, {"warmup-time-period": 4, "time-period": 10},
         {"warmup-time-period": 4, "time-period": 10, "ramp-up-time-period": 2}]
THR = [{}, {"target-throughput": 10}, {"target-throughput": "5 docs/s"}, {"target-interval": 0.5}]
TAGS = [{}, {"tags": "a"}, {"tags": ["a", "b"]}]
OPFORMS = ["op-search", {"operation-type": "search", "name": "inline-search", "body": {}}, "force-merge", {"operation-type": "bulk", "bulk-size": 500},
           # the documented way to force (or suppress) reporting, against the default of the operation type
           {"operation-type": "force-merge", "name": "fm-reported", "include-in-reporting": True},
           {"operation-type": "search", "name": "search-hidden", "body": {}, "include-in-reporting": False}]


def task_models(tier):
    for loop, clients, thr, tags, name, sched, meta, opf in itertools.product(LOOPS, ({}, {"clients": 2}), THR, TAGS, ({}, {"name": "my-task"}),
                                                                             ({}, {"schedule": "poisson"}), ({}, {"meta": {"k": "v"}}), range(len(OPFORMS))):
        if tier == "quick" and sum(bool(x) for x in (clients, tags, name, sched, meta)) > 2:
            continue
        spec = {"operation": copy.deepcopy(OPFORMS[opf])}
        for part in (loop, clients, thr, tags, name, sched, meta):
            spec.update(copy.deepcopy(part))
        m = base_model()
        m["challenges"][0]["schedule"] = [spec]
        yield f"T:{json.dumps(spec)[:120]}", m


def parallel_models(tier):
    children_sets = [
        [{"operation": "op-search"}],
        [{"operation": "op-search"}, {"operation": "op-bulk", "clients": 3}],
        [{"operation": "op-search", "name": "s1"}, {"operation": "op-search", "name": "s2", "iterations": 9}, {"operation": "op-fm"}],
        [{"operation": "op-search", "name": "s1", "tags": "x"}, {"operation": {"operation-type": "sleep", "duration": 1}, "warmup-time-period": 1, "time-period": 2}],
    ]
    for defaults, clients, cb, ci in itertools.product(LOOPS, ({}, {"clients": 3}), (None, "first", "any"), range(len(children_sets))):
        children = copy.deepcopy(children_sets[ci])
        # a child that sets its own loop keys must stay consistent with the rules (no mixing, ramp-up only on the parallel)
        iter_default = "iterations" in defaults or "warmup-iterations" in defaults
        time_default = "time-period" in defaults
        ok = True
        for ch in children:
            if ("iterations" in ch and (time_default or "warmup-time-period" in defaults)) or ("time-period" in ch and iter_default):
                ok = False
            if "ramp-up-time-period" in defaults and ch.get("warmup-time-period", 99) < defaults["ramp-up-time-period"]:
                ok = False
        if not ok:
            continue
        p = {"tasks": children}
        p.update(copy.deepcopy(defaults))
        p.update(clients)
        if cb == "first":
            first = children[0]
            p["completed-by"] = first.get("name", first["operation"] if isinstance(first["operation"], str) else first["operation"].get("name", first["operation"]["operation-type"]))
        elif cb == "any":
            p["completed-by"] = "any"
        m = base_model()
        m["challenges"][0]["schedule"] = [{"operation": "op-bulk", "name": "before"}, {"parallel": p}]
        yield f"P:{json.dumps(p)[:140]}", m


def challenge_models():
    sched = [{"operation": "op-search"}, {"operation": "op-bulk", "clients": 2}]
    m = base_model()
    del m["challenges"]
    m["schedule"] = copy.deepcopy(sched)
    yield "C:schedule", m, None
    m = base_model()
    del m["challenges"]
    m["challenge"] = {"name": "only", "description": "x", "schedule": copy.deepcopy(sched)}
    yield "C:challenge", m, None
    m = base_model()
    m["challenges"] = [{"name": "only", "schedule": copy.deepcopy(sched)}]
    yield "C:challenges-1-no-default-flag", m, None
    for d0, d1 in ((True, False), (False, True)):
        m = base_model()
        m["challenges"] = [{"name": "c0", "default": d0, "schedule": copy.deepcopy(sched)}, {"name": "c1", "default": d1, "schedule": [{"operation": "op-fm"}]}]
        yield f"C:challenges-2-default-{int(d1)}", m, None
        yield f"C:challenges-2-default-{int(d1)}-selected-c1", m, "c1"


def sequence_models():
    """several tasks of one or two challenges that mix inline operations and references by name / by operation type: an inline
    operation is private to its task, a plain string that is not a defined operation is an operation of that type without parameters"""
    inline_fm = {"operation-type": "force-merge", "max-num-segments": 1, "request-timeout": 7}
    inline_named = {"operation-type": "search", "name": "my-inline", "body": {"query": {"match_all": {}}}, "cache": True}
    inline_like_defined = {"operation-type": "search", "name": "op-search", "body": {"query": {"term": {"x": 1}}}}
    seqs = [
        [{"operation": inline_fm}, {"operation": "force-merge", "name": "plain-fm"}],
        [{"operation": "force-merge", "name": "plain-fm"}, {"operation": inline_fm}],
        [{"operation": inline_named, "name": "t1"}, {"operation": "my-inline", "name": "t2"}],
        [{"operation": inline_fm, "name": "a"}, {"operation": dict(inline_fm, **{"max-num-segments": 5}), "name": "b"}, {"operation": "force-merge", "name": "c"}],
        [{"operation": inline_like_defined, "name": "shadow"}, {"operation": "op-search", "name": "defined"}],
        [{"parallel": {"tasks": [{"operation": inline_fm, "name": "p1"}, {"operation": "force-merge", "name": "p2"}]}}, {"operation": "force-merge", "name": "after"}],
    ]
    for i, sq in enumerate(seqs):
        m = base_model()
        m["challenges"][0]["schedule"] = copy.deepcopy(sq)
        yield f"S:{i}", m, None
        # the same, spread over two challenges (the reader shares its operation lookup between challenges)
        if len(sq) >= 2 and "parallel" not in sq[0]:
            for sel in (None, "c1"):
                m = base_model()
                m["challenges"] = [{"name": "c0", "default": True, "schedule": copy.deepcopy(sq[:1])}, {"name": "c1", "schedule": copy.deepcopy(sq[1:])}]
                yield f"S:{i}:two-challenges:{sel}", m, sel


def helper_models():
    """Rally's template helper rally.exists_set_param(name, value, default_value, comma): emits the setting iff the value is defined or a
    default is given; a defined value always wins over the default -- also when it is false, 0 or empty"""
    UNDEF = object()
    for value in (UNDEF, False, True, 0, 5, "", "x"):
        for default in (None, True, 7, "d"):
            for comma in (True, False):
                emitted = value is not UNDEF or default is not None
                if not comma and not emitted:
                    continue  # (nothing emitted in front of a closing brace would leave a dangling comma in the hand-written text)
                dv = "" if default is None else ", default_value=" + json.dumps(default)
                call = '{{ rally.exists_set_param("x-setting", p_cache%s%s) }}' % (dv, "" if comma else ", comma=False")
                op_text = '{"name": "op-h", "operation-type": "search", "index": "idx"%s %s}' % ("" if comma else ",", call)
                raw = ('{% import "rally.helpers" as rally with context %}\n{"version": 2, "description": "d", "indices": [{"name": "idx"}], "operations": [' + op_text + '],\n'
                       ' "challenges": [{"name": "main", "default": true, "schedule": [{"operation": "op-h", "clients": {{ p_clients | default(3) }}}]}]}')
                op = {"name": "op-h", "operation-type": "search", "index": "idx"}
                if emitted:
                    op["x-setting"] = default if value is UNDEF else value
                exp = {"version": 2, "description": "d", "indices": [{"name": "idx"}], "operations": [op],
                       "challenges": [{"name": "main", "default": True, "schedule": [{"operation": "op-h", "clients": 3}]}]}
                m = {"_raw": raw, "_expect_model": exp, "_params": {} if value is UNDEF else {"p_cache": value}}
                m.update(exp)
                yield f"H:value={'undefined' if value is UNDEF else json.dumps(value)}:default={json.dumps(default)}:comma={comma}", m


def collect_macro_models():
    """parts collected through the rally.collect *macro* at render time (spellings that the loader does not inline textually: no blanks
    inside the braces, single quotes) with the helpers imported with and without context: a user-supplied track parameter must reach the
    collected part exactly like the main file"""
    for imp in ('{% import "rally.helpers" as rally %}', '{% import "rally.helpers" as rally with context %}'):
        for call in ('{{rally.collect(parts="operations/*.json")}}', "{{ rally.collect(parts='operations/*.json') }}", '{{ rally.collect(parts="operations/*.json") }}'):
            for supplied in (True, False):
                idx = "custom-logs" if supplied else "logs"
                raw = (imp + '\n{"version": 2, "description": "d", "indices": [{"name": "{{ idx_name | default(\'logs\') }}"}],\n'
                       ' "operations": [ ' + call + ' ],\n'
                       ' "challenges": [{"name": "main", "default": true, "schedule": [{"operation": "op-p", "clients": {{ p_clients | default(2) }}}]}]}')
                part = '{"name": "op-p", "operation-type": "search", "index": "{{ idx_name | default(\'logs\') }}", "body": {"size": {{ p_size | default(7) }}}}'
                exp = {"version": 2, "description": "d", "indices": [{"name": idx}],
                       "operations": [{"name": "op-p", "operation-type": "search", "index": idx, "body": {"size": 7}}],
                       "challenges": [{"name": "main", "default": True, "schedule": [{"operation": "op-p", "clients": 2}]}]}
                m = {"_raw": raw, "_expect_model": exp, "_params": {"idx_name": "custom-logs"} if supplied else {}, "_files": {"operations/op-p.json": part}}
                m.update(exp)
                yield f"M:import={'with' if 'with context' in imp else 'without'}-context:call={call}:param-supplied={supplied}", m


def special_char_models():
    """string parameters with characters that HTML escaping would mangle (date-math index names, ampersands, apostrophes), in the track file
    and in a collected part: what the user supplies is what the track contains"""
    for where in ("main", "part"):
        for val in ("<logs-{now/d}>", "a&b", "it's", "x > y < z"):
            opdef = '{"name": "op-p", "operation-type": "search", "index": "{{ idx_name }}", "body": {"size": 7}}'
            raw = ('{% import "rally.helpers" as rally with context %}\n{"version": 2, "description": "{{ descr }}", "indices": [{"name": "{{ idx_name }}"}],\n'
                   ' "operations": [ ' + (opdef if where == "main" else '{{ rally.collect(parts="operations/*.json") }}') + ' ],\n'
                   ' "challenges": [{"name": "main", "default": true, "schedule": [{"operation": "op-p", "clients": 2}]}]}')
            exp = {"version": 2, "description": val, "indices": [{"name": val}],
                   "operations": [{"name": "op-p", "operation-type": "search", "index": val, "body": {"size": 7}}],
                   "challenges": [{"name": "main", "default": True, "schedule": [{"operation": "op-p", "clients": 2}]}]}
            m = {"_raw": raw, "_expect_model": exp, "_params": {"idx_name": val, "descr": val}, "_files": {"operations/op-p.json": opdef} if where == "part" else {}}
            m.update(exp)
            yield f"X:special-characters-in-parameter:{where}:{val}", m


def nested_collect_models():
    """parts that collect parts of their own, from different directories with the same relative pattern: every including file gets the files
    next to it"""
    for first, second in (("indexing", "querying"), ("querying", "indexing")):
        raw = ('{% import "rally.helpers" as rally with context %}\n{"version": 2, "description": "d", "indices": [{"name": "logs"}],\n'
               ' "operations": [{"name": "op-i", "operation-type": "search", "index": "logs", "body": {"size": 1}}, {"name": "op-q", "operation-type": "search", "index": "logs", "body": {"size": 2}}],\n'
               ' "challenges": [ {{ rally.collect(parts="' + first + '/challenge.json") }}, {{ rally.collect(parts="' + second + '/challenge.json") }} ]}')
        files = {
            "indexing/challenge.json": '{"name": "indexing", "default": true, "schedule": [ {{ rally.collect(parts="tasks/*.json") }} ]}',
            "indexing/tasks/t1.json": '{"operation": "op-i", "clients": 1}',
            "querying/challenge.json": '{"name": "querying", "schedule": [ {{ rally.collect(parts="tasks/*.json") }} ]}',
            # (one file per directory: the order in which a glob pattern delivers several files is the file system's)
            "querying/tasks/t1.json": '{"operation": "op-q", "clients": 2}',
        }
        chs = {"indexing": {"name": "indexing", "default": True, "schedule": [{"operation": "op-i", "clients": 1}]},
               "querying": {"name": "querying", "schedule": [{"operation": "op-q", "clients": 2}]}}
        exp = {"version": 2, "description": "d", "indices": [{"name": "logs"}],
               "operations": [{"name": "op-i", "operation-type": "search", "index": "logs", "body": {"size": 1}}, {"name": "op-q", "operation-type": "search", "index": "logs", "body": {"size": 2}}],
               "challenges": [chs[first], chs[second]]}
        m = {"_raw": raw, "_expect_model": exp, "_params": {}, "_files": files}
        m.update(exp)
        yield f"N:nested-collect:{first}-first", m


def corpora_models():
    docsets = [
        {"source-file": "docs.json.bz2", "document-count": 10, "compressed-bytes": 100, "uncompressed-bytes": 1000},
        {"source-file": "docs.json", "document-count": 7},
        {"source-file": "meta.json.gz", "document-count": 3, "includes-action-and-meta-data": True},
        {"source-file": "other.json.zst", "document-count": 4, "uncompressed-bytes": 44, "target-index": "idx", "base-url": "http://example.org/x"},
    ]
    for n_c in (1, 2):
        for combo in itertools.product(range(len(docsets)), repeat=n_c):
            for corpus_level in ({}, {"base-url": "http://corp.example/base", "includes-action-and-meta-data": False}):
                m = base_model()
                m["corpora"] = []
                for i, di in enumerate(combo):
                    c = {"name": f"corpus{i}", "documents": [copy.deepcopy(docsets[di])] + ([copy.deepcopy(docsets[(di + 1) % 4])] if i == 0 else [])}
                    c.update(copy.deepcopy(corpus_level))
                    m["corpora"].append(c)
                yield f"D:{combo}:{bool(corpus_level)}", m
    # data streams instead of indices
    m = base_model()
    del m["indices"]
    m["data-streams"] = [{"name": "ds"}]
    m["corpora"] = [{"name": "c", "documents": [{"source-file": "docs.json.bz2", "document-count": 10}]}]
    yield "D:data-stream", m
    m = base_model()
    m["indices"] = [{"name": "i1"}, {"name": "i2"}]
    m["corpora"] = [{"name": "c", "documents": [{"source-file": "docs.json", "document-count": 1, "target-index": "i2"}]}]
    yield "D:two-indices-explicit-target", m


def file_models():
    """index bodies and templates live in their own files and may use track parameters that appear nowhere else"""
    body_tmpl = '{"settings": {"index.number_of_shards": {{ number_of_shards | default(1) }}, "index.number_of_replicas": {{ number_of_replicas | default(0) }}}, "mappings": {"properties": {"f": {"type": "keyword"}}}}'
    for user_params, shards, replicas in (({}, 1, 0), ({"number_of_shards": 3}, 3, 0), ({"number_of_shards": 5, "number_of_replicas": 2}, 5, 2)):
        m = base_model()
        m["indices"] = [{"name": "idx", "body": "index.json"}]
        m["_files"] = {"index.json": body_tmpl}
        m["_params"] = dict(user_params)
        m["_expect"] = {"index_bodies": [{"settings": {"index.number_of_shards": shards, "index.number_of_replicas": replicas}, "mappings": {"properties": {"f": {"type": "keyword"}}}}]}
        yield f"F:index-body:{sorted(user_params)}", m
        m = base_model()
        del m["indices"]
        m["composable-templates"] = [{"name": "tpl", "index-pattern": "logs-*", "template": "tpl.json"}]
        m["component-templates"] = [{"name": "comp", "template": "comp.json"}]
        m["_files"] = {"tpl.json": '{"index_patterns": ["logs-*"], "template": {"settings": {"number_of_shards": {{ number_of_shards | default(1) }}}}}',
                       "comp.json": '{"template": {"settings": {"number_of_replicas": {{ number_of_replicas | default(0) }}}}}'}
        m["_params"] = dict(user_params)
        m["_expect"] = {"templates": [["tpl", "logs-*", {"index_patterns": ["logs-*"], "template": {"settings": {"number_of_shards": shards}}}],
                                      ["comp", None, {"template": {"settings": {"number_of_replicas": replicas}}}]]}
        yield f"F:templates:{sorted(user_params)}", m


def invalid_models():
    def bases():
        yield "b-simple", base_model()
        m = base_model()
        m["challenges"][0]["schedule"] = [{"operation": "op-search", "name": "t1"}, {"parallel": {"tasks": [{"operation": "op-search", "name": "p1"}, {"operation": "op-bulk", "name": "p2"}]}}]
        yield "b-parallel", m
        m = base_model()
        m["challenges"] = [{"name": "c0", "default": True, "schedule": [{"operation": "op-search"}]}, {"name": "c1", "schedule": [{"operation": "op-fm"}]}]
        yield "b-two-challenges", m
        m = base_model()
        m["corpora"] = [{"name": "c", "documents": [{"source-file": "docs.json", "document-count": 1}]}]
        yield "b-corpus", m

    for bl, b in bases():
        def mut(rule, f, params=None, challenge=None):
            m = copy.deepcopy(b)
            try:
                f(m)
            except (KeyError, IndexError, TypeError):
                return None
            return (f"{bl}", rule, m, params, challenge)

        sched = lambda m: m["challenges"][0]["schedule"]  # noqa: E731
        cands = [
            mut("duplicate-task-name", lambda m: sched(m).append(copy.deepcopy(sched(m)[0]))),
            mut("duplicate-task-name-inside-parallel", lambda m: sched(m)[1]["parallel"]["tasks"].append({"operation": "op-search", "name": "p1"})),
            mut("duplicate-task-name-task-vs-parallel", lambda m: sched(m)[1]["parallel"]["tasks"].append({"operation": "op-search", "name": "t1"})),
            mut("duplicate-challenge-name", lambda m: m["challenges"].append(copy.deepcopy(m["challenges"][0])) or m["challenges"][-1].update(default=False)),
            mut("two-default-challenges", lambda m: m["challenges"][1].update(default=True)),
            mut("no-default-challenge", lambda m: m["challenges"][0].update(default=False) if len(m["challenges"]) > 1 else (_ for _ in ()).throw(KeyError())),
            # ... also when the user has selected one of the challenges by name (--challenge)
            mut("no-default-challenge-but-one-selected", lambda m: m["challenges"][0].update(default=False) if len(m["challenges"]) > 1 else (_ for _ in ()).throw(KeyError()), None, "c1"),
            mut("two-default-challenges-one-selected", lambda m: m["challenges"][1].update(default=True), None, "c1"),
            # integer properties are integers: a float with a zero fraction (what Jinja's true division renders) is not one (JSON schema draft-04)
            mut("clients-float-with-zero-fraction", lambda m: sched(m)[0].update({"clients": 2.0})),
            mut("iterations-float-with-zero-fraction", lambda m: sched(m)[0].update({"iterations": 5.0})),
            mut("time-period-float-with-zero-fraction", lambda m: sched(m)[0].update({"warmup-time-period": 4.0, "time-period": 10})),
            mut("document-count-float-with-zero-fraction", lambda m: m["corpora"][0]["documents"][0].update({"document-count": 1.0})),
            mut("duplicate-operation-name", lambda m: m["operations"].append(copy.deepcopy(m["operations"][0]))),
            mut("duplicate-corpus-name", lambda m: m["corpora"].append(copy.deepcopy(m["corpora"][0]))),
            mut("warmup-iterations-with-time-period", lambda m: sched(m)[0].update({"warmup-iterations": 1, "time-period": 5})),
            mut("warmup-time-period-with-iterations", lambda m: sched(m)[0].update({"warmup-time-period": 1, "iterations": 5})),
            mut("ramp-up-with-iterations", lambda m: sched(m)[0].update({"iterations": 5, "ramp-up-time-period": 1})),
            mut("ramp-up-with-warmup-iterations-only", lambda m: sched(m)[0].update({"warmup-iterations": 5, "warmup-time-period": 4, "ramp-up-time-period": 1})),
            mut("ramp-up-with-iterations-and-periods", lambda m: sched(m)[0].update({"iterations": 5, "warmup-time-period": 4, "ramp-up-time-period": 1})),
            mut("inherited-ramp-up-with-warmup-iterations", lambda m: (sched(m)[1]["parallel"].update({"warmup-time-period": 4, "time-period": 9, "ramp-up-time-period": 2}),
                                                                     sched(m)[1]["parallel"]["tasks"][0].update({"warmup-iterations": 3}))),
            mut("ramp-up-without-warmup-period", lambda m: sched(m)[0].update({"time-period": 5, "ramp-up-time-period": 1})),
            mut("ramp-up-above-warmup-period", lambda m: sched(m)[0].update({"warmup-time-period": 1, "time-period": 5, "ramp-up-time-period": 3})),
            mut("ramp-up-on-nested-task", lambda m: sched(m)[1]["parallel"]["tasks"][0].update({"warmup-time-period": 4, "time-period": 5, "ramp-up-time-period": 2})),
            mut("unknown-completed-by", lambda m: sched(m)[1]["parallel"].update({"completed-by": "nope"})),
            # the name of an *operation* used by a differently named task is not a task name
            mut("completed-by-operation-name", lambda m: sched(m)[1]["parallel"].update({"completed-by": "op-bulk"})),
            mut("completed-by-task-outside-parallel", lambda m: sched(m)[1]["parallel"].update({"completed-by": "t1"})),
            mut("indices-and-data-streams", lambda m: m.update({"data-streams": [{"name": "ds"}]})),
            mut("missing-operation-in-task", lambda m: sched(m)[0].pop("operation")),
            mut("schedule-and-challenges", lambda m: m.update({"schedule": [{"operation": "op-search"}]})),
            mut("empty-parallel-tasks", lambda m: sched(m)[1]["parallel"].update({"tasks": []})),
            mut("clients-zero", lambda m: sched(m)[0].update({"clients": 0})),
            mut("clients-wrong-type", lambda m: sched(m)[0].update({"clients": "two"})),
            mut("missing-challenge-name", lambda m: m["challenges"][0].pop("name")),
            mut("unsupported-version-1", lambda m: m.update({"version": 1})),
            mut("unsupported-version-3", lambda m: m.update({"version": 3})),
            mut("corpus-without-documents", lambda m: m["corpora"][0].pop("documents")),
            mut("document-without-count", lambda m: m["corpora"][0]["documents"][0].pop("document-count")),
            mut("unused-track-parameter", lambda m: None, {"never_used_param": 1}),
            mut("reserved-track-parameter", lambda m: None, {"now": 5}),
        ]
        for c in cands:
            if c is not None:
                yield c


def _job(arg):
    import logging

    logging.disable(logging.CRITICAL)
    from esrally.utils import console

    console.init(quiet=True)
    kind, items = arg
    res = Result()
    for it in items:
        if kind == "raw":
            label, model, sel = it
            check_valid(model, "plain", res, label, sel)
        elif kind == "valid":
            label, model, sel = it
            for spelling in ("plain", "jinja", "parts"):
                if spelling == "parts" and "schedule" in model:
                    continue
                check_valid(model, spelling, res, label, sel)
        else:
            bl, rule, model, params, chsel = it
            for spelling in ("plain", "jinja"):
                check_invalid(model, rule, spelling, res, f"{bl}", params, chsel)
    return res


def run(tier, seed):
    valid = [(l, m, None) for l, m in task_models(tier)] + [(l, m, None) for l, m in parallel_models(tier)] + list(challenge_models()) + list(sequence_models()) + [
        (l, m, None) for l, m in corpora_models()
    ] + [(l, m, None) for l, m in file_models()]
    helpers = [(l, m, None) for l, m in helper_models()] + [(l, m, None) for l, m in collect_macro_models()]
    helpers += [(l, m, None) for l, m in special_char_models()] + [(l, m, None) for l, m in nested_collect_models()]
    invalid = list(invalid_models())
    jobs = [("valid", ch) for ch in par.chunks(valid, par.NPROC * 4)] + [("invalid", ch) for ch in par.chunks(invalid, par.NPROC)]
    jobs += [("raw", ch) for ch in par.chunks(helpers, 4)]
    res = par.pmap(_job, jobs, seed=seed)
    res.extra["valid_models"] = len(valid)
    res.extra["invalid_models"] = len(invalid)
    res.states = res.evaluations
    res.transitions = res.evaluations
    return res


def replay(data):
    import logging

    logging.disable(logging.CRITICAL)
    from esrally.utils import console

    console.init(quiet=True)
    res = Result()
    if data["kind"] == "valid":
        check_valid(data["model"], data["spelling"], res, data["label"], data.get("sel"))
    else:
        check_invalid(data["model"], data["rule"], data["spelling"], res, data["label"], data.get("params"), data.get("challenge"))
    return [v for lst in res.violations.values() for v in lst]
