"""C06 -- throughput counts every operation exactly once, however samples are batched.

Explicit-state search over call histories of one real ThroughputCalculator: a state is the sequence of batches
delivered so far (the calculator carries state between calculate() calls); every stream of up to N samples on a time grid
x every sample-type assignment x every ordered partition of the samples into successive batches (= every arrival order
across clients x every cut) x {alone, with batches of a second task in between}.  Sample i carries 4^i operations, so the
operation count N = value * elapsed decodes into exactly which samples were counted and how often.
"""
import itertools

from mc import par
from mc.core import Result

ID = "C06"
LEVEL = "model_checking"
RULE = (
    "streams: every multiset of <= N timestamps from the grid x every warm-up/normal assignment; histories: every ordered set "
    "partition of the stream into batches (all arrival orders across clients x all cuts), each alone and interleaved with "
    "batches of a second task, and with a sample of a second task of the other kind (runner-supplied vs. calculated throughput) at the end of the same batch or between the task's own samples (a task's samples need not be contiguous in a batch); runner-supplied throughput streams (all positive, zero on alternate samples, all zero) separately; variants: clients of odd samples start 0.1 s later (batches in ascending / descending sample order), failed requests "
    "with 0 operations (all normal ones / the last / all; quick: streams <= 3; thorough at 5 samples: one variant per family). State = prefix of batches delivered to one real "
    "ThroughputCalculator; transition = one calculate() call. non-trivial = history with >= 2 batches or >= 2 samples; "
    "distinct = (stream, partition, variant)"
)
ASSUMPTIONS = [
    "in the base variants all samples of a task share one task start (absolute_time - time_period constant); a further variant starts the "
    "clients of the odd-numbered samples 0.1 s later and delivers each batch in ascending and in descending sample order; each sample may come from its own client "
    "(so every arrival order is possible); timestamps on the grid listed in coverage.grid",
    "for histories whose arrival order contradicts the timestamps the statement does not fix the elapsed time of a value: either the "
    "value's own timestamp or the latest timestamp seen so far is accepted as denominator, and samples that arrived earlier but "
    "carry a later timestamp may or may not be counted",
]

GRID_Q = [0.2, 0.9, 1.0, 1.1, 2.6, 3.5]
GRID_T = [0.2, 0.5, 0.9, 1.0, 1.1, 2.0, 2.6, 3.5]
START = 1_000.0
BASE = 4


def ordered_partitions(items):
    """all sequences of disjoint non-empty batches covering items (order inside a batch = index order)"""
    items = list(items)
    if not items:
        yield []
        return
    n = len(items)
    for mask in range(1, 1 << n):
        first = [items[i] for i in range(n) if mask >> i & 1]
        rest = [items[i] for i in range(n) if not mask >> i & 1]
        for tail in ordered_partitions(rest):
            yield [first] + tail


_PART_CACHE = {}


def partitions_of(n):
    if n not in _PART_CACHE:
        _PART_CACHE[n] = list(ordered_partitions(range(n)))
    return _PART_CACHE[n]


_ENV = {}


def env():
    if _ENV:
        return _ENV
    from esrally import metrics
    from esrally.driver import driver
    from esrally.track import track

    op_a = track.Operation("index-a", track.OperationType.Bulk.to_hyphenated_string(), params={}, param_source="driver-test-param-source")
    op_b = track.Operation("search-b", track.OperationType.Search.to_hyphenated_string(), params={}, param_source="driver-test-param-source")
    _ENV["task_a"] = track.Task("task-a", op_a)
    _ENV["task_b"] = track.Task("task-b", op_b)
    _ENV["W"] = metrics.SampleType.Warmup
    _ENV["N"] = metrics.SampleType.Normal
    _ENV["driver"] = driver
    return _ENV


SKEW = 0.1  # in the skewed variant the clients of the odd-numbered samples started the task this much later than the others


def skew_of(skew, i):
    return SKEW if skew and i % 2 else 0.0


def mk(task, idx, t, stype, ops, unit="docs", thr=None, started=0.0):
    d = env()["driver"]
    return d.Sample(idx, START + t, 50.0 + t, 50.0, task, stype, None, 0.0, 0.0, 0.0, thr, ops, unit, t - started, None)


def decode(n):
    digits = []
    while n:
        digits.append(n % BASE)
        n //= BASE
    return digits


def pt_value(mode, i):
    """runner-supplied throughput of sample i: mode 1 all positive, mode 2 zero on even samples (a runner reporting no progress), mode 3 all zero"""
    if not mode:
        return None
    if mode == 3 or (mode == 2 and i % 2 == 0):
        return 0.0
    return 7.25 + i


def zero_set(mode, types):
    """samples of failed requests (0 operations): none | every normal-type sample | the last sample | every sample"""
    n = len(types)
    return {None: set(), "normal": {i for i in range(n) if types[i]}, "last": {n - 1}, "all": set(range(n))}[mode]


def run_history(times, types, batches, other_task, passthrough=False, skew=False, rev=False, zeros=None):
    """returns list of (call index, tuples for task A, tuples for task B)"""
    e = env()
    calc = e["driver"].ThroughputCalculator()
    out = []
    k = 0
    for bi, batch in enumerate(batches):
        samples = [
            mk(e["task_a"], i, times[i], e["N"] if types[i] else e["W"], 0 if i in zero_set(zeros, types) else BASE**i, "ops" if i in zero_set(zeros, types) else "docs", pt_value(passthrough, i), skew_of(skew, i)) for i in (reversed(batch) if rev else batch)
        ]
        if other_task in ("same", "mid"):
            # the SAME batch ends with a sample of another task of the other kind (runner-supplied throughput if task A's is calculated,
            # calculated if task A's is runner-supplied): the decision is per task, not per batch
            k += 1
            other = mk(e["task_b"], 100 + k, 0.75 * k, e["N"], 1, "ops", None if passthrough else 5.5 + k)
            if other_task == "mid" and len(samples) >= 2:
                # ... or sits BETWEEN samples of task A (two workers report both tasks of a parallel element: a task's samples are not contiguous)
                samples.insert(1, other)
            else:
                samples.append(other)
        r = calc.calculate(samples)
        out.append((bi, r.get(e["task_a"], []), r.get(e["task_b"], []), set(r.keys())))
        if other_task and other_task not in ("same", "mid"):
            # a batch that contains only the other task (task A is still running but has no sample in it)
            k += 1
            rb = calc.calculate([mk(e["task_b"], 100 + k, 0.75 * k, e["N"], 1, "ops")])
            out.append((bi, rb.get(e["task_a"], []), rb.get(e["task_b"], []), set(rb.keys())))
    return out


def oracle(times, types, batches, outs, other_task, passthrough, skew=False, rev=False, zeros=None):
    """returns (clause, message) or None"""
    e = env()
    n = len(times)
    # the task started when the client of its earliest sample started it: earliest in time within the first batch (first arrived among equals)
    zs = zero_set(zeros, types)
    arrival = list(reversed(batches[0])) if rev else list(batches[0])
    first = min(arrival, key=lambda i: (times[i], arrival.index(i)))
    task_start = skew_of(skew, first)
    flat = [i for b in batches for i in b]
    in_order = all(times[a] <= times[b] for a, b in zip(flat, flat[1:])) and all(
        (times[a], a) <= (times[b], b) for a, b in zip(flat, flat[1:])
    )
    delivered = set()
    prev_batches_max = 0.0
    last_n = -1
    last_type = None
    seen_normal_value = False
    b_values = 0
    bi_seen = -1
    cur_batch = []
    for bi, ta, tb, keys in outs:
        if bi != bi_seen:
            if cur_batch:
                prev_batches_max = max([prev_batches_max] + [times[i] for i in cur_batch])
            cur_batch = batches[bi]
            delivered |= set(cur_batch)
            bi_seen = bi
            is_a_call = True
        else:
            is_a_call = False
        if not is_a_call:
            if ta:
                return ("phantom-values", f"a batch without samples of the task produced values {ta}")
            b_values += len(tb)
            for tup in tb:
                if tup[4] != "ops/s" or tup[3] < 0:
                    return ("other-task-unit-or-sign", f"{tup}")
            continue
        if other_task in ("same", "mid"):
            b_values += len(tb)
            kb = bi + 1
            if passthrough:
                if any(tup[3] is None or tup[3] < 0 or tup[4] != "ops/s" for tup in tb):
                    return ("other-task-in-same-batch", f"calculated task next to a runner-supplied one in one batch: {tb}")
            elif [(tup[0], tup[3], tup[4]) for tup in tb] != [(START + 0.75 * kb, 5.5 + kb, "ops/s")]:
                return ("other-task-in-same-batch", f"runner-supplied throughput of the other task in the same batch not passed through 1:1: {tb}, sample carried {5.5 + kb} at t={0.75 * kb}")
        elif tb:
            return ("phantom-values", f"other task values {tb} from a batch without its samples")
        if passthrough:
            want = sorted(
                [(START + times[i], times[i], e["N"] if types[i] else e["W"], pt_value(passthrough, i), "docs/s") for i in cur_batch], key=lambda x: x[0]
            )
            got = sorted(ta, key=lambda x: x[0])
            if [(w[0], w[2], w[3], w[4]) for w in want] != [(g[0], g[2], g[3], g[4]) for g in got] or any(
                abs(w[1] - g[1]) > 1e-9 for w, g in zip(want, got)
            ):
                return ("passthrough", f"runner-supplied throughput not passed through 1:1: got {got}, want {want}")
            continue
        for tup in ta:
            at, rt, st, val, unit = tup
            t = at - START
            # a failed request is recorded as (0, "ops") by execute_single, a successful bulk in "docs": a value carries the unit of the sample it is reported for
            units_at_t = {("ops/s" if i in zs else "docs/s") for i in delivered if abs(times[i] - t) < 1e-9}
            if unit not in (units_at_t or {"docs/s"}):
                return ("unit", f"unit {unit!r} of the value at t={t}, the samples at that time carry {sorted(units_at_t)}")
            if val is None or val < 0:
                return ("negative", f"value {val}")
            if not any(abs(times[i] - t) < 1e-9 and abs(rt - times[i]) < 1e-9 for i in delivered):
                return ("time-mismatch", f"value at t={t} rel={rt} matches no delivered sample")
            if last_type is not None and st < last_type:
                return ("type-regress", f"sample type went from {last_type} back to {st}")
            last_type = st
            if st == e["N"]:
                seen_normal_value = True
            # elapsed time = the latest sample time seen so far: a late sample (older than an earlier batch) never shrinks it
            cands = [max(t, prev_batches_max) - task_start]
            verdict = None
            for d in cands:
                nn = val * d
                ni = round(nn)
                if abs(nn - ni) > 1e-6 * max(1.0, nn):
                    verdict = verdict or ("not-integer", f"value*elapsed = {nn} at t={t}")
                    continue
                digits = decode(ni) + [0] * n
                bad = None
                for i in range(n):
                    dg = digits[i]
                    if dg > 1:
                        bad = ("double-count", f"sample {i} (t={times[i]}) counted {dg} times in the value at t={t}")
                    elif dg == 1 and i not in delivered:
                        bad = ("phantom-sample", f"sample {i} counted before it was delivered")
                    elif dg == 0 and i in delivered and times[i] < t - 1e-9 and i not in zs:
                        bad = ("lost", f"sample {i} (t={times[i]}) delivered but missing from the value at t={t}")
                    elif dg == 1 and in_order and times[i] > t + 1e-9:
                        bad = ("counted-early", f"sample {i} (t={times[i]}) counted in the value at t={t}")
                    if bad:
                        break
                if bad is None and any(digits[n:]):
                    bad = ("phantom-sample", f"count {ni} exceeds all samples")
                if bad is None and not any(digits[i] or i in zs for i in range(n) if abs(times[i] - t) < 1e-9):
                    bad = ("lost", f"no sample at t={t} is part of the value at t={t}")
                if bad is None and ni < last_n:
                    bad = ("non-monotone", f"operation count fell from {last_n} to {ni}")
                if bad is None:
                    verdict = None
                    last_n = ni
                    break
                verdict = bad
            if verdict:
                return verdict
    if not passthrough:
        if any(types[i] for i in delivered) and not seen_normal_value:
            return ("no-normal-value", "a normal sample was delivered but no normal throughput value was ever returned")
    if other_task and b_values < 1:
        return ("no-normal-value", "second task never got a value")
    return None


def check_history(times, types, part_idx, other_task, passthrough, res, skew=False, rev=False, zeros=None):
    batches = partitions_of(len(times))[part_idx]
    try:
        outs = run_history(times, types, batches, other_task, passthrough, skew, rev, zeros)
    except Exception as ex:  # noqa
        outs = None
        v = ("calculator-raises", f"{type(ex).__name__}: {ex}")
    if outs is not None:
        try:
            v = oracle(times, types, batches, outs, other_task, passthrough, skew, rev, zeros)
        except (TypeError, ValueError, IndexError, KeyError) as ex:
            # values of an unexpected shape (None, wrong tuple size, ...) are wrong values, not a reason for the check to stop
            v = ("malformed-values", f"{type(ex).__name__}: {ex}; output {outs[:2]}")
    outs = outs or []
    ntup = sum(len(o[1]) for o in outs)
    res.case(
        case_repr={
            "times": list(times),
            "normal": list(types),
            "batches": batches,
            "with_second_task": other_task,
            "runner_throughput": passthrough,
            "clients_started_at_different_times": skew,
            "failed_requests_with_0_operations": zeros,
            "arrival_order_within_a_batch": "descending sample number" if rev else "ascending sample number",
            "values": [[round(x[0] - START, 3), str(x[2]), round(x[3], 4) if x[3] is not None else None] for o in outs for x in o[1]],
        }
        if res.sample_now(50021)
        else None,
        nontrivial_key=(times, types, part_idx, other_task, passthrough, skew, rev, zeros) if len(times) > 1 else None,
        outcome_key=(ntup, tuple(round(x[3], 6) if isinstance(x[3], (int, float)) else repr(x[3]) for o in outs for x in o[1])),
    )
    res.states += len(outs) + 1
    res.transitions += len(outs)
    if v:
        flat = [i for b in batches for i in b]
        order = "in-order" if all((times[a], a) <= (times[b], b) for a, b in zip(flat, flat[1:])) else "out-of-order"
        res.violation(
            f"throughput:{v[0]}:{order}" + (":second-task" if other_task and v[0] in ("phantom-values",) else "") + (":skewed-starts" if skew else "") + (":failed-requests" if zeros else ""),
            f"times={list(times)} normal={list(types)} batches={batches} second_task={other_task} runner_throughput={passthrough}: {v[1]}; "
            f"values={[[round(x[0] - START, 3), str(x[2]), x[3]] for o in outs for x in o[1]]}",
            {"times": list(times), "types": list(types), "part": part_idx, "other": other_task, "passthrough": passthrough, "skew": skew, "rev": rev, "zeros": zeros},
        )


def _shard(arg):
    import logging

    logging.disable(logging.CRITICAL)
    grid, n, combos = arg
    quick_small = len(grid) > 6  # thorough tier: failed-request variants for every stream length
    res = Result()
    nparts = len(partitions_of(n))
    for times in combos:
        for types in itertools.product((0, 1), repeat=n):
            for p in range(nparts):
                check_history(times, types, p, False, False, res)
                check_history(times, types, p, True, False, res)
                if not (quick_small and n >= 5):
                    check_history(times, types, p, "same", False, res)
                if n >= 2 and not (quick_small and n >= 5):
                    check_history(times, types, p, "mid", False, res)
                big = quick_small and n >= 5  # the longest streams of the thorough tier: one variant of each family
                if len(times) > 1:
                    if not big:
                        check_history(times, types, p, False, False, res, skew=True)
                    check_history(times, types, p, False, False, res, skew=True, rev=True)
                if quick_small or len(times) <= 3:
                    for zm in ("normal",) if big else ("normal", "last", "all"):
                        check_history(times, types, p, False, False, res, zeros=zm)
        # runner-supplied throughput: types all-normal and one mixed assignment
        for types in ((1,) * n, tuple(i % 2 for i in range(n))):
            for p in range(nparts):
                for mode in (1, 2, 3):
                    check_history(times, types, p, False, mode, res)
                check_history(times, types, p, "same", 1, res)
                if n >= 2:
                    check_history(times, types, p, "mid", 1, res)
    return res


def run(tier, seed):
    grid = GRID_Q if tier == "quick" else GRID_T
    nmax = 4 if tier == "quick" else 5
    jobs = []
    for n in range(1, nmax + 1):
        combos = list(itertools.combinations_with_replacement(grid, n))
        for ch in par.chunks(combos, par.NPROC * 2 if n == nmax else 2):
            jobs.append((grid, n, ch))
    res = par.pmap(_shard, jobs, seed=seed)
    res.extra["grid"] = grid
    res.extra["max_samples"] = nmax
    res.extra["histories_per_stream_at_max"] = len(partitions_of(nmax))
    res.traces = res.evaluations
    return res


def replay(data):
    import logging

    logging.disable(logging.CRITICAL)
    res = Result()
    check_history(tuple(data["times"]), tuple(data["types"]), data["part"], data["other"], data["passthrough"], res, skew=bool(data.get("skew")), rev=bool(data.get("rev")), zeros=data.get("zeros"))
    return [v for lst in res.violations.values() for v in lst]
