"""C13 -- cars compose in order with documented precedence; provisioning mirrors templates.

Bounded-exhaustive generation of team directories on scratch (config bases with variable sets and template trees, cars and
mixins), every car-name list of length 1..3 in every order, every subset of car parameters, through the real team.load_car,
the real BareProvisioner.prepare with the real ElasticsearchInstaller on a stub distribution archive, and the real
provisioner.cleanup.  Reference: a dict merge in the documented order and a 10-line template renderer.
"""
import io as pyio
import itertools
import os
import re
import shutil
import tarfile
import tempfile

from mc import par
from mc.core import Result

ID = "C13"
LEVEL = "exploration"
RULE = (
    "team directories: 3 variants of config-base variable sets x cars {c1(base A), c2(bases A,B), c3(base B), m1, m2 (mixins without base; m1 "
    "also sets Rally's node variable names), c4(bases B,A,B), c5(bases A,A)}; base A carries the same file name at two directory levels; "
    "car lists: every ordered selection of 1..3 distinct cars (quick: triples only over c1..m2) x every subset of car "
    "parameters {heap, a, http_port, data_paths}; provisioning of every composition that has a config base; cleanup with preserve on/off x "
    "data paths {default, sibling sharing the install dir's name prefix, external}. non-trivial = list of >= 2 cars or non-empty params; distinct = configuration"
)
ASSUMPTIONS = [
    "documented precedence (docs/car.rst): config-base variables < car variables in list order < car parameters < Rally's node variables",
    "templates reference variables as {{name}} or {{name|default('x')}} only, so the reference renderer is a regex substitution",
]

_S = {}
NODE_VARS = ["cluster_name", "node_name", "network_host", "http_port", "transport_port", "node_ip", "log_path", "heap_dump_path", "install_root_path"]

TEMPLATE_MAIN = "cluster={{cluster_name}}\nnode={{node_name}}\nhost={{network_host}}\nport={{http_port}}\na={{a}}\nb={{b|default('no-b')}}\nheap={{heap|default('none')}}\n"
TEMPLATE_B = "# from base B\nc={{c|default('no-c')}}\na-again={{a}}\n"
BINARY = b"\x00\xff\xfe\x01 binary {{a}} not rendered \x80"


def scratch():
    if _S.get("pid") != os.getpid():
        _S.clear()
        _S["dir"] = tempfile.mkdtemp(prefix="verif-c13-")
        _S["pid"] = os.getpid()
        import atexit

        d = _S["dir"]
        atexit.register(lambda: shutil.rmtree(d, ignore_errors=True))
    return _S["dir"]


BASE_VARIANTS = [
    {"A": {"a": "A-a", "b": "A-b"}, "B": {"a": "B-a", "c": "B-c"}},
    {"A": {"a": "A-a"}, "B": {}},
    {"A": {}, "B": {"b": "B-b", "heap": "B-heap"}},
]
CARS = {
    "c1": (["A"], {"a": "c1-a", "heap": "1g"}),
    "c2": (["A", "B"], {"b": "c2-b", "heap": "2g"}),
    "c3": (["B"], {"a": "c3-a"}),
    "m1": ([], {"heap": "4g", "c": "m1-c", "network_host": "evil-host", "node_name": "evil-name", "http_port": "1"}),
    "m2": ([], {"a": "m2-a"}),
    # a car that names the same config base twice in its own list
    "c4": (["B", "A", "B"], {"c": "c4-c"}),
    "c5": (["A", "A"], {}),
    # a mixin that switches options off by setting them to the empty string: an empty value is a value and overrides like any other
    "m3": ([], {"b": "", "heap": ""}),
}
CORE_CARS = ["c1", "c2", "c3", "m1", "m2"]
PARAMS = {"heap": "6g", "a": "param-a", "http_port": "2", "data_paths": None}  # data_paths filled per case


def team_dir(variant):
    key = ("team", variant)
    if key in _S:
        return _S[key]
    root = os.path.join(scratch(), f"team{variant}")
    cars = os.path.join(root, "cars", "v1")
    for base, vars_ in BASE_VARIANTS[variant].items():
        t = os.path.join(cars, base, "templates", "config")
        os.makedirs(os.path.join(t, "sub"))
        with open(os.path.join(cars, base, "config.ini"), "w") as f:
            f.write("[variables]\nruntime.jdk = 17\nruntime.jdk.bundled = true\ndocker_image = registry/es\n" + "".join(f"{k} = {v}\n" for k, v in vars_.items()))
        with open(os.path.join(t, "elasticsearch.yml"), "w") as f:
            f.write(TEMPLATE_MAIN if base == "A" else TEMPLATE_B)
        if base == "A":
            with open(os.path.join(t, "jvm.options"), "w") as f:
                f.write("-Xmx{{heap|default('default-heap')}}\n")
            with open(os.path.join(t, "sub", "deep.txt"), "w") as f:
                # no newline at the end of the template: what base B appends must still start on a line of its own
                f.write("deep a={{a}}")
            # same file name at two levels of one config base
            with open(os.path.join(t, "sub", "jvm.options"), "w") as f:
                f.write("# sub-level options\n-Xms{{heap|default('sub-heap')}}\n")
            os.makedirs(os.path.join(t, "sub", "deeper"))
            with open(os.path.join(t, "sub", "deeper", "deep.txt"), "w") as f:
                f.write("deeper b={{b|default('no-b')}}\n")
            with open(os.path.join(t, "bin.dat"), "wb") as f:
                f.write(BINARY)
            # a template that renders to nothing still has to be mirrored into the installation
            with open(os.path.join(t, "unicast_hosts.txt"), "w") as f:
                f.write("")
        else:
            with open(os.path.join(t, "only-b.properties"), "w") as f:
                f.write("only.b={{c|default('x')}}\n")
            with open(os.path.join(t, "sub", "deep.txt"), "w") as f:
                f.write("deep from B\n")
            # the same binary file as in base A with other bytes: the later base's copy is the one that is mirrored
            with open(os.path.join(t, "bin.dat"), "wb") as f:
                f.write(b"\x00\x01 keystore of base B \xff")
    for name, (bases, vars_) in CARS.items():
        with open(os.path.join(cars, f"{name}.ini"), "w") as f:
            f.write(f"[meta]\ndescription = {name}\ntype = {'car' if bases else 'mixin'}\n")
            if bases:
                f.write(f"[config]\nbase = {','.join(bases)}\n")
            f.write("[variables]\n" + "".join(f"{k} = {v}\n" for k, v in vars_.items()))
    _S[key] = root
    return root


def dist_archive():
    if "dist" in _S:
        return _S["dist"]
    p = os.path.join(scratch(), "elasticsearch-8.0.0.tar.gz")
    with tarfile.open(p, "w:gz") as tf:
        for name, data in (("elasticsearch-8.0.0/config/elasticsearch.yml", b"prebundled: true\n"), ("elasticsearch-8.0.0/config/prebundled-only.yml", b"x: 1\n"),
                           ("elasticsearch-8.0.0/bin/elasticsearch", b"#!/bin/sh\n"), ("elasticsearch-8.0.0/lib/es.jar", b"jar")):
            ti = tarfile.TarInfo(name)
            ti.size = len(data)
            tf.addfile(ti, pyio.BytesIO(data))
    _S["dist"] = p
    return p


def ref_compose(variant, names, params):
    """returns (config bases in order, merged variables) or 'error'"""
    if any(n not in CARS for n in names):
        return "error"
    bases = []
    base_vars, car_vars = {}, {}
    for n in names:
        bs, vs = CARS[n]
        for b in bs:
            if b not in bases:
                bases.append(b)
            bv = {"runtime.jdk": "17", "runtime.jdk.bundled": "true", "docker_image": "registry/es"}
            bv.update(BASE_VARIANTS[variant][b])
            base_vars.update(bv)
        car_vars.update(vs)
        car_vars.update(params)
    if not bases:
        return "error"
    merged = dict(base_vars)
    merged.update(car_vars)
    return bases, merged


def render(text, variables):
    def sub(mo):
        name, default = mo.group(1), mo.group(3)
        if name in variables and variables[name] is not None:
            return str(variables[name])
        return default if default is not None else ""

    out = re.sub(r"\{\{\s*([a-zA-Z_.]+)\s*(\|\s*default\('([^']*)'\))?\s*\}\}", sub, text)
    return out if out.endswith("\n") else out + "\n"


def snapshot(root):
    out = {}
    for dp, dn, fn in os.walk(root):
        for d in dn:
            out[os.path.relpath(os.path.join(dp, d), root) + "/"] = None
        for f in fn:
            with open(os.path.join(dp, f), "rb") as fh:
                out[os.path.relpath(os.path.join(dp, f), root)] = fh.read()
    return out


def check_case(variant, names, pkeys, data_mode, preserve, res):
    from esrally import exceptions
    from esrally.mechanic import provisioner, team

    troot = team_dir(variant)
    _S["n"] = _S.get("n", 0) + 1
    work = os.path.join(scratch(), f"w{_S['n']}")
    node_root = os.path.join(work, "node0")
    os.makedirs(work)
    params = {k: PARAMS[k] for k in pkeys}
    data_mode_full = data_mode
    data_missing = data_mode.endswith("-missing")
    data_mode = data_mode.replace("-missing", "")
    ext_data = os.path.join(work, "external-data")
    sibling = os.path.join(node_root, "install", "elasticsearch-8.0.0-data")
    link_target = os.path.join(work, "mounted-disk")
    link = os.path.join(work, "data-link")
    if data_mode == "symlink":
        # the data path is a symbolic link (e.g. to a mounted disk): deleting it fails, which must not stop the rest of the cleanup
        os.makedirs(link_target)
        os.symlink(link_target, link)
    if "data_paths" in params:
        params["data_paths"] = sibling if data_mode == "sibling" else (link if data_mode == "symlink" else ext_data)
    want = ref_compose(variant, names, params)
    v = None
    try:
        try:
            car = team.load_car(troot, list(names), dict(params) if params else None)
            err = None
        except exceptions.SystemSetupError as e:
            car, err = None, e
        if want == "error":
            if err is None:
                v = ("composition-without-config-base-accepted", f"cars {names} have no config base but load_car returned {car.config_paths}")
        elif err is not None:
            v = ("valid-composition-rejected", f"{err}")
        else:
            bases, merged = want
            want_paths = [os.path.join(troot, "cars", "v1", b, "templates") for b in bases]
            if list(car.config_paths) != want_paths:
                v = ("config-base-order", f"config paths {[p.split('/')[-2] for p in car.config_paths]}, expected {bases}")
            elif dict(car.variables) != merged:
                diff = {k: (car.variables.get(k), merged.get(k)) for k in set(car.variables) | set(merged) if car.variables.get(k) != merged.get(k)}
                who = "car-parameter" if any(k in params for k in diff) else "car-order"
                v = (f"variable-precedence-{who}", f"variables differ (got, expected): {diff}")
        if v is None and want != "error":
            # provisioning with the real installer on the stub distribution
            bases, merged = want
            inst = provisioner.ElasticsearchInstaller(car, None, "rally-node-0", "rally-benchmark", node_root, ["10.0.0.7"], ["rally-node-0"], "10.0.0.7", 39200)
            prov = provisioner.BareProvisioner(inst, [], distribution_version="8.0.0")
            node_cfg = prov.prepare({"elasticsearch": dist_archive()})
            home = node_cfg.binary_path
            want_data = [params["data_paths"]] if params.get("data_paths") else [os.path.join(home, "data")]
            eff = dict(merged)
            eff.update({"cluster_name": "rally-benchmark", "node_name": "rally-node-0", "network_host": "10.0.0.7", "node_ip": "10.0.0.7",
                        "http_port": "39200", "transport_port": "39300"})
            # expected files under <home>/config
            exp = {}
            for b in bases:
                tdir = os.path.join(troot, "cars", "v1", b, "templates")
                for dp, _dn, fn in os.walk(tdir):
                    for f in sorted(fn):
                        rel = os.path.relpath(os.path.join(dp, f), tdir)
                        raw = open(os.path.join(dp, f), "rb").read()
                        if os.path.splitext(f)[1] in (".ini", ".txt", ".json", ".yml", ".yaml", ".options", ".properties"):
                            exp[rel] = exp.get(rel, b"") + render(raw.decode("utf-8"), eff).encode("utf-8")
                        else:
                            exp[rel] = raw
            got = {k: val for k, val in snapshot(home).items() if k.startswith("config/") and val is not None}
            if node_cfg.data_paths != want_data:
                v = ("data-paths", f"node configuration has data paths {node_cfg.data_paths}, expected {want_data}")
            elif set(got) != set(exp):
                v = ("template-files", f"files under config: {sorted(got)}, templates provide {sorted(exp)}")
            else:
                for rel in sorted(exp):
                    if got[rel] != exp[rel]:
                        internal = any(f"{nv}=" in exp[rel].decode("utf-8", "replace") for nv in ()) or False
                        clause = "binary-file" if rel.endswith(".dat") else "rendered-file"
                        if clause == "rendered-file":
                            for line_g, line_e in zip(got[rel].decode().splitlines(), exp[rel].decode().splitlines()):
                                if line_g != line_e and line_e.split("=")[0] in ("node", "host", "port", "cluster"):
                                    clause = "node-variable-overridden"
                        v = (clause, f"{rel}: provisioned {got[rel][:300]!r}, expected {exp[rel][:300]!r}")
                        break
            if v is None and data_mode == "default":
                # a second node on the same host is provisioned from the SAME car object (mechanic.create loads the car once per host): its
                # configuration is its own, and the composed car is still what the team repository defines
                root1 = os.path.join(work, "node1")
                inst1 = provisioner.ElasticsearchInstaller(car, None, "rally-node-1", "rally-benchmark", root1, ["10.0.0.7"], ["rally-node-0", "rally-node-1"], "10.0.0.7", 39201)
                cfg1 = provisioner.BareProvisioner(inst1, [], distribution_version="8.0.0").prepare({"elasticsearch": dist_archive()})
                want_data1 = [params["data_paths"]] if params.get("data_paths") else [os.path.join(cfg1.binary_path, "data")]
                eff1 = dict(merged)
                eff1.update({"cluster_name": "rally-benchmark", "node_name": "rally-node-1", "network_host": "10.0.0.7", "node_ip": "10.0.0.7",
                             "http_port": "39201", "transport_port": "39301"})
                exp1 = {}
                for b in bases:
                    tdir = os.path.join(troot, "cars", "v1", b, "templates")
                    for dp, _dn, fn in os.walk(tdir):
                        for f in sorted(fn):
                            rel = os.path.relpath(os.path.join(dp, f), tdir)
                            raw = open(os.path.join(dp, f), "rb").read()
                            if os.path.splitext(f)[1] in (".ini", ".txt", ".json", ".yml", ".yaml", ".options", ".properties"):
                                exp1[rel] = exp1.get(rel, b"") + render(raw.decode("utf-8"), eff1).encode("utf-8")
                            else:
                                exp1[rel] = raw
                got1 = {k: val for k, val in snapshot(cfg1.binary_path).items() if k.startswith("config/") and val is not None}
                if cfg1.data_paths != want_data1:
                    v = ("second-node-data-paths", f"second node on the host (same car object) has data paths {cfg1.data_paths}, expected {want_data1}")
                elif dict(car.variables) != merged:
                    diff = {k: (car.variables.get(k), merged.get(k)) for k in set(car.variables) | set(merged) if car.variables.get(k) != merged.get(k)}
                    v = ("car-changed-by-provisioning", f"variables of the composed car after provisioning two nodes (got, expected): {diff}")
                elif got1 != exp1:
                    rel = next((r for r in sorted(set(got1) | set(exp1)) if got1.get(r) != exp1.get(r)), None)
                    v = ("second-node-rendered-file", f"{rel}: provisioned {(got1.get(rel) or b'')[:300]!r}, expected {(exp1.get(rel) or b'')[:300]!r}")
            if v is None and data_mode == "default" and not preserve:
                # the same car through the Docker provisioner: same templates, same precedence, Rally's container-side variables win
                droot = os.path.join(work, "dnode0")
                dprov = provisioner.DockerProvisioner(car, "rally-node-0", "rally-benchmark", "10.0.0.7", 39200, droot, "8.0.0",
                                                      os.path.join(os.environ.get("VERIF_REPO", "/repo"), "esrally"))
                dprov.prepare(None)
                deff = dict(merged)
                deff.update({"cluster_name": "rally-benchmark", "node_name": "rally-node-0", "network_host": "0.0.0.0", "http_port": "39200",
                             "transport_port": "39300", "install_root_path": "/usr/share/elasticsearch", "log_path": "/var/log/elasticsearch",
                             "heap_dump_path": "/usr/share/elasticsearch/heapdump", "discovery_type": "single-node"})
                dexp = {}
                for b in bases:
                    tdir = os.path.join(troot, "cars", "v1", b, "templates")
                    for dp, _dn, fn in os.walk(tdir):
                        for f in sorted(fn):
                            rel = os.path.relpath(os.path.join(dp, f), tdir)
                            raw = open(os.path.join(dp, f), "rb").read()
                            if os.path.splitext(f)[1] in (".ini", ".txt", ".json", ".yml", ".yaml", ".options", ".properties"):
                                dexp[rel] = dexp.get(rel, b"") + render(raw.decode("utf-8"), deff).encode("utf-8")
                            else:
                                dexp[rel] = raw
                dgot = {k: val for k, val in snapshot(os.path.join(droot, "install")).items() if k.startswith("config/") and val is not None}
                if set(dgot) != set(dexp):
                    v = ("docker-template-files", f"files under config: {sorted(dgot)}, templates provide {sorted(dexp)}")
                else:
                    for rel in sorted(dexp):
                        if dgot[rel] != dexp[rel]:
                            clause = "docker-rendered-file"
                            for line_g, line_e in zip(dgot[rel].decode("utf-8", "replace").splitlines(), dexp[rel].decode("utf-8", "replace").splitlines()):
                                if line_g != line_e and line_e.split("=")[0] in ("node", "host", "port", "cluster"):
                                    clause = "docker-node-variable-overridden"
                            v = (clause, f"{rel}: provisioned {dgot[rel][:300]!r}, expected {dexp[rel][:300]!r}")
                            break
            if v is None:
                # cleanup
                for p in want_data + [ext_data, sibling]:
                    if data_missing and p in want_data:
                        shutil.rmtree(p, ignore_errors=True)
                        continue
                    os.makedirs(p, exist_ok=True)
                    with open(os.path.join(p, "segment.dat"), "w") as f:
                        f.write("data")
                keep_dir = os.path.join(node_root, "logs", "server")
                before = snapshot(work)
                provisioner.cleanup(preserve, node_cfg.binary_path, node_cfg.data_paths)
                after = snapshot(work)
                if preserve:
                    if after != before:
                        changed = sorted(set(before) ^ set(after))[:5]
                        v = ("cleanup-removes-although-preserve", f"changed: {changed}")
                else:
                    if os.path.exists(node_cfg.binary_path):
                        v = ("cleanup-leaves-installation", f"{node_cfg.binary_path} still exists")
                    else:
                        for p in node_cfg.data_paths:
                            if os.path.exists(p) and not os.path.islink(p):
                                v = ("cleanup-leaves-data-path", f"data path {p} still exists (install dir {node_cfg.binary_path})")
                        unrelated = [p for p in (ext_data, sibling) if p not in node_cfg.data_paths]
                        for p in unrelated:
                            if not os.path.exists(os.path.join(p, "segment.dat")):
                                v = v or ("cleanup-removes-unrelated-directory", f"{p} is not a data path of this node but was removed")
                        if not os.path.isdir(keep_dir):
                            v = v or ("cleanup-removes-unrelated-directory", f"{keep_dir} removed")
    except Exception as e:  # noqa
        import traceback

        v = ("raises", f"{type(e).__name__}: {e} @ {traceback.extract_tb(e.__traceback__)[-1][:3]}")
    finally:
        shutil.rmtree(work, ignore_errors=True)
    res.case(
        case_repr={"base_variant": variant, "cars": list(names), "car_params": params, "data": data_mode_full, "preserve": preserve} if res.sample_now(997) else None,
        nontrivial_key=(variant, names, pkeys, data_mode_full, preserve) if len(names) > 1 or pkeys else None,
        outcome_key=(v[0] if v else "ok", want == "error", len(names), len(pkeys)),
    )
    if v:
        res.violation(f"team:{v[0]}", f"bases#{variant} cars={list(names)} params={params} data={data_mode_full} preserve={preserve}: {v[1]}",
                      {"variant": variant, "names": list(names), "pkeys": list(pkeys), "data": data_mode_full, "preserve": preserve})


def cases(tier):
    names = list(CARS)
    lists = [p for n in (1, 2, 3) for p in itertools.permutations(names, n) if tier == "thorough" or n < 3 or all(x in CORE_CARS for x in p)]
    pk = list(PARAMS)
    subsets = [c for n in range(len(pk) + 1) for c in itertools.combinations(pk, n)]
    for variant in range(len(BASE_VARIANTS)):
        for nl in lists:
            for ps in subsets:
                if tier == "quick" and variant > 0 and len(ps) > 1:
                    continue
                # "-missing": the node never started, so the data path was never created (Elasticsearch creates it on first start)
                modes = ["sibling", "external", "symlink", "external-missing"] if "data_paths" in ps else ["default", "default-missing"]
                for dm in modes:
                    for preserve in (False, True):
                        if preserve and (variant > 0 or len(nl) > 2):
                            continue
                        yield (variant, nl, ps, dm, preserve)
    # a car named more than once in the list: it is applied again at every position, so the last mention wins over what stands in between
    for variant in range(len(BASE_VARIANTS)):
        for x, y in itertools.permutations(names if tier == "thorough" else CORE_CARS, 2):
            for nl in ((x, y, x), (x, x, y), (y, x, x)):
                for ps in ((), tuple(pk[:1])):
                    if "data_paths" in ps:
                        continue
                    yield (variant, nl, ps, "default", False)
    yield (0, ("nope",), (), "default", False)
    yield (0, ("c1", "nope"), (), "default", False)


def _job(items):
    import logging

    logging.disable(logging.CRITICAL)
    from esrally.utils import console

    console.init(quiet=True)
    res = Result()
    for it in items:
        check_case(*it, res)
    return res


def run(tier, seed):
    cs = list(cases(tier))
    res = par.pmap(_job, par.chunks(cs, par.NPROC * 4), seed=seed)
    res.extra["cases"] = len(cs)
    res.states = res.evaluations
    res.transitions = res.evaluations
    return res


def replay(data):
    import logging

    logging.disable(logging.CRITICAL)
    from esrally.utils import console

    console.init(quiet=True)
    res = Result()
    check_case(data["variant"], tuple(data["names"]), tuple(data["pkeys"]), data["data"], data["preserve"], res)
    return [v for lst in res.violations.values() for v in lst]
