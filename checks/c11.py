"""C11 -- task filters keep exactly the selected tasks and leave a runnable track.

Bounded-exhaustive enumeration: every schedule that can be built from 5 leaf prototypes (sequential and parallel elements,
up to 3 elements; names, operation types, tags as list and as plain string incl. substring traps) in a two-challenge track x
every include/exclude filter list of length <= 2 over 14 filters, through the real TaskFilterTrackProcessor; reference =
list comprehension over leaf tasks; then the Allocator invariants of C02 and the driver's progress walk on the result.
"""
import itertools

from mc import vclock

vclock.install()

from checks import sched_common as sc  # noqa: E402
from mc import par
from mc.core import Result

ID = "C11"
LEVEL = "exploration"
RULE = (
    "schedules: ordered sequences of <= 3 (quick: <= 2 plus a reduced set of 3) elements, each a single leaf or a parallel of 1..3 "
    "leaves drawn without repetition from 5 prototypes (names a, b, ab, d, x; types bulk/search/raw-request; tags ['x'], 'xy' as a "
    "plain string, ['x','y','search'], none, 'x' as a string: a name that is also a tag and a tag that is also a type), parallel elements "
    "with derived and with explicit clients, in the first or second challenge of a track; filter lists: every list of 1..2 of "
    "16 filters (names incl. a non-matching one and the name of an operation, type:, tag: incl. substrings of other tags; both orders where two filters of different "
    "kinds carry the same value) as include and as exclude, plus "
    "malformed specs; a set of filtered schedules is executed end to end by the real driver and workers in the race simulation (default "
    "schedule). non-trivial = filter list selects a proper non-empty subset of the leaves; distinct = (schedule, filters, mode)"
)
ASSUMPTIONS = [
    "reference: include keeps leaves matching at least one filter, exclude keeps leaves matching none; name = equality, type = "
    "operation type equality, tag = membership in the task's tag list (a tag written as a plain string is one tag)",
    "runnable = no empty parallel element, the C02 allocation invariants hold and Driver.update_progress_message works at every step",
]

# name, op type, tags, clients
LEAVES = {
    "a": ("a", "bulk", ["x"], 2),
    "b": ("b", "search", "xy", 1),
    "ab": ("ab", "scroll-search", ["x", "y", "search"], 1),  # one tag equals an operation type; its own type contains another type's name
    "d": ("d", "raw-request", None, 3),
    "x": ("x", "bulk", "x", 1),  # its name equals a tag value
}
# the second challenge: an unrelated task and a task that equals leaf "a" of the first challenge (name, operation, settings) except for its
# tags -- decisions must be made per task, not per "equal" task
OTHER = [("zz-other", "search", ["x"], 1), ("a", "bulk", ["y"], 2)]
FILTERS = ["a", "b", "ab", "d", "x", "zz", "type:bulk", "type:search", "type:raw-request", "type:composite", "type:scroll-search", "tag:x", "tag:y", "tag:xy", "tag:z", "tag:search",
           # the name of the OPERATION of task a (tasks are selected by their own name only)
           "a-op",
           # task filters are case-sensitive: this one matches nothing
           "D"]
MALFORMED = ["foo:bar", "a:b:c", "tags:x"]


def matches(flt, leaf):
    name, typ, tags, _ = LEAVES[leaf]
    taglist = [tags] if isinstance(tags, str) else (tags or [])
    if flt.startswith("type:"):
        return flt[5:] == typ
    if flt.startswith("tag:"):
        return flt[4:] in taglist
    return flt == name


def names(el):
    """leaf names of a schedule element; an element (n, "") is a parallel element with the single sub-task n"""
    return [n for n in el if n]


def schedule_specs(tier):
    leafs = list(LEAVES)
    elements = [(n,) for n in leafs] + [(n, "") for n in leafs]
    for k in (2, 3):
        elements += list(itertools.permutations(leafs, k))
    out = []

    def rec(prefix, used, depth):
        if prefix:
            out.append(list(prefix))
        if depth == 0:
            return
        for el in elements:
            if used & set(names(el)):
                continue
            rec(prefix + [el], used | set(names(el)), depth - 1)

    rec([], set(), 3 if tier == "thorough" else 2)
    if tier == "quick":
        out += [[("a",), ("b", "ab"), ("d", "x")], [("a", "x"), ("d",), ("b", "ab")], [("b", "a", "d"), ("x",), ("ab",)]]
    return out


def cap_of(el, capped):
    """explicit clients value of a parallel element in the capped variant (never above what its tasks need)"""
    return 2 if capped and len(el) > 1 else None


def build_track(spec, challenge_pos, capped=False):
    from esrally.track import track

    def leaf(n):
        name, typ, tags, clients = LEAVES[n]
        t = sc.mk_task(name, clients=clients, op_type=typ, tags=list(tags) if isinstance(tags, list) else tags)
        t.iterations = 1
        return t

    objs = {}
    schedule = []
    for el in spec:
        if len(el) == 1:
            t = leaf(el[0])
            objs[el[0]] = t
            schedule.append(t)
        else:
            ts = []
            for n in names(el):
                t = leaf(n)
                objs[n] = t
                ts.append(t)
            schedule.append(track.Parallel(ts, clients=cap_of(el, capped)))
    other = []
    for oname, otyp, otags, oclients in OTHER:
        t = sc.mk_task(oname, clients=oclients, op_type=otyp, tags=list(otags) if isinstance(otags, list) else otags)
        t.iterations = 1
        other.append(t)
    c_main = track.Challenge("main", default=challenge_pos == 0, schedule=schedule)
    c_other = track.Challenge("other", default=challenge_pos != 0, schedule=other)
    chs = [c_main, c_other] if challenge_pos == 0 else [c_other, c_main]
    return track.Track(name="t", challenges=chs), c_main, c_other, objs


def snapshot(t):
    d = dict(vars(t))
    d["tags"] = list(d["tags"])
    return d


def check_case(spec, flts, exclude, challenge_pos, res, capped=False):
    from esrally import config, exceptions
    from esrally.track import loader, track

    trk, c_main, c_other, objs = build_track(spec, challenge_pos, capped)
    before = {n: snapshot(t) for n, t in objs.items()}
    cfg = config.Config()
    cfg.add(config.Scope.application, "track", "exclude.tasks" if exclude else "include.tasks", list(flts))
    v = None
    try:
        proc = loader.TaskFilterTrackProcessor(cfg)
        out = proc.on_after_load_track(trk)
    except Exception as e:  # noqa
        v = ("raises", f"{type(e).__name__}: {e}")
        out = None
    sel = {n: any(matches(f, n) for f in flts) != exclude for el in spec for n in names(el)}
    want = [[n for n in names(el) if sel[n]] for el in spec]
    want = [el for el in want if el]
    if v is None:
        got = []
        for el in c_main.schedule:
            if isinstance(el, track.Parallel):
                got.append(("P", [t.name for t in el.tasks]))
            else:
                got.append(("T", [el.name]))
        if out is not trk and not (out is not None and getattr(out, "challenges", None) == trk.challenges):
            v = ("returns-other-track", f"{out!r}")
        elif any(k == "P" and not names for k, names in got):
            v = ("empty-parallel-left", f"filtered schedule {got}")
        elif [names for _k, names in got] != want:
            extra = [n for _k, names in got for n in names if not sel.get(n, False)]
            missing = [n for el in want for n in el if n not in [m for _k, names in got for m in names]]
            v = ("wrong-selection", f"filtered schedule {got}, expected {want} (kept but not selected: {extra}; selected but missing: {missing})")
        else:
            # identity, order, unchanged attributes; parallel elements stay parallel (even with one task left) and keep their cap
            want_src = [el for el in spec if any(sel[n] for n in names(el))]
            for el, wel, src in zip(c_main.schedule, want, want_src):
                ts = el.tasks if isinstance(el, track.Parallel) else [el]
                if isinstance(el, track.Parallel) != (len(src) > 1):
                    v = ("element-kind-changed", f"element {list(src)} became {type(el).__name__}")
                elif isinstance(el, track.Parallel) and el._clients != cap_of(src, capped):
                    v = ("parallel-clients-changed", f"element {list(src)}: explicit clients {el._clients}, was {cap_of(src, capped)}")
                for t, n in zip(ts, wel):
                    if t is not objs[n]:
                        v = ("task-replaced", f"task {n} is not the original object")
                    elif snapshot(t) != before[n]:
                        diff = {a: (before[n][a], b) for a, b in snapshot(t).items() if before[n].get(a) != b}
                        v = ("task-modified", f"task {n}: {diff}")
            # the other challenge is filtered with the same rule
            def omatch(f, o):
                oname, otyp, otags, _c = o
                return f[5:] == otyp if f.startswith("type:") else (f[4:] in otags if f.startswith("tag:") else f == oname)

            oth_want = [o[0] for o in OTHER if any(omatch(f, o) for f in flts) != exclude]
            oth_names = [t.name for t in c_other.schedule]
            if v is None and oth_names != oth_want:
                v = ("other-challenge-not-filtered", f"second challenge has {oth_names}, expected {oth_want}")
        if v is None and not c_main.schedule:
            # filters that leave nothing: still runnable (one idle client, no step), the driver must be able to start and finish
            try:
                from esrally.driver import driver as drv

                al = drv.Allocator([])
                if al.clients != 1 or len(al.join_points) != 1 or al.tasks_per_joinpoint != [] or len(al.allocations) != 1:
                    v = ("empty-schedule-allocation", f"clients={al.clients} join points={len(al.join_points)} task sets={al.tasks_per_joinpoint}")
            except Exception as e:  # noqa
                v = ("empty-schedule-not-runnable", f"Allocator on the empty filtered schedule: {type(e).__name__}: {e}")
            if v is None:
                w = sc.check_start_benchmark([])
                if w and w != "skipped":
                    v = ("empty-schedule-" + w[0], w[1])
        if v is None and c_main.schedule:
            a = sc.check_allocator(c_main.schedule)
            if a:
                v = ("allocator-" + a[0], a[1])
            else:
                w = sc.check_progress_walk(c_main.schedule)
                if w == "skipped":
                    res.count("progress_walk_oracle_skipped")
                elif w:
                    v = w
    nsel = sum(sel.values())
    res.case(
        case_repr={"schedule": [list(e) for e in spec], "filters": list(flts), "mode": "exclude" if exclude else "include",
                   "challenge_position": challenge_pos, "parallel_clients": "explicit" if capped else "derived", "expected": want}
        if res.sample_now(20011)
        else None,
        nontrivial_key=(repr(spec), flts, exclude, challenge_pos, capped) if 0 < nsel < len(sel) else None,
        outcome_key=(v[0] if v else "ok", nsel, len(want)),
    )
    if v:
        kinds = sorted({("type" if f.startswith("type:") else "tag" if f.startswith("tag:") else "name") for f in flts})
        res.violation(
            f"filter:{v[0]}:{'exclude' if exclude else 'include'}",
            f"schedule {[list(e) for e in spec]}{' (explicit clients on parallel elements)' if capped else ''} (challenge #{challenge_pos}) {'exclude' if exclude else 'include'}={list(flts)} ({'+'.join(kinds)}): {v[1]}",
            {"spec": [list(e) for e in spec], "filters": list(flts), "exclude": exclude, "pos": challenge_pos, "capped": capped},
        )


def check_raced(spec, flts, exclude, res):
    """end to end: the filtered schedule is executed by the real driver / workers in the race simulation (default schedule)"""
    from esrally import config
    from esrally.track import loader, track

    from mc import explore, loadgen, racesim

    racesim.setup()
    # runnable leaves: the custom verif operation registered under per-type names, so that type: filters still discriminate
    e = loadgen.setup()
    for typ in sorted({t for _n, t, _g, _c in LEAVES.values()}):
        vt = "v-" + typ
        try:
            e["runner"].runner_for(vt)
        except Exception:  # noqa
            e["runner"].register_runner(vt, e["verif_op_fn"], async_runner=True)

    def leaf(n):
        name, typ, tags, clients = LEAVES[n]
        op = track.Operation(name + "-op", "v-" + typ, params={"task-key": name}, param_source=loadgen.SOURCE)
        return track.Task(name, op, tags=list(tags) if isinstance(tags, list) else tags, clients=clients, iterations=2)

    schedule = []
    for el in spec:
        schedule.append(leaf(el[0]) if len(el) == 1 else track.Parallel([leaf(n) for n in names(el)]))
    ch_ = track.Challenge("c", default=True, schedule=schedule)
    trk = track.Track(name="verif", challenges=[ch_])
    cfg = config.Config()
    vflts = [f.replace("type:", "type:v-") for f in flts]
    cfg.add(config.Scope.application, "track", "exclude.tasks" if exclude else "include.tasks", vflts)
    v = None
    try:
        loader.TaskFilterTrackProcessor(cfg).on_after_load_track(trk)
    except Exception as e:  # noqa
        v = ("filter-raises", f"{type(e).__name__}: {e}")
    sel = {n: any(matches(f, n) for f in flts) != exclude for el in spec for n in names(el)}
    seen_names = []
    if v is None and ch_.schedule:
        r = racesim.run_race(ch_.schedule, ["localhost"], 2, lambda entry: {"service_time": 0.25, "body": {}}, explore.Chooser(()), horizon=300.0)
        seen_names = [n for _t, n, _m in r.received]
        ran = {}
        for en in r.log:
            ran.setdefault(en["target"].split("/")[2], set()).add(int(en["target"].split("/")[3]))
        if r.handler_errors:
            v = ("race-handler-raises", f"{r.handler_errors[0][:2]}: {r.handler_errors[0][2][-200:]}")
        elif r.phase != "complete":
            v = ("filtered-track-not-runnable", f"race ended in phase {r.phase} (status {r.status}); race control saw {seen_names}")
        else:
            want = {n: set(range(LEAVES[n][3])) for n, s_ in sel.items() if s_}
            if ran != want:
                v = ("filtered-race-runs-other-tasks", f"tasks/clients that issued requests {ran}, selected {want}")
    res.case(
        case_repr={"raced": True, "schedule": [list(e_) for e_ in spec], "filters": list(flts), "mode": "exclude" if exclude else "include", "race_control_saw": seen_names}
        if res.sample_now(101)
        else None,
        nontrivial_key=("race", repr(spec), flts, exclude),
        outcome_key=("race", v[0] if v else "ok", len(seen_names)),
    )
    if v:
        res.violation(f"filter:{v[0]}:{'exclude' if exclude else 'include'}",
                      f"raced schedule {[list(e_) for e_ in spec]} {'exclude' if exclude else 'include'}={list(flts)}: {v[1]}",
                      {"raced": True, "spec": [list(e_) for e_ in spec], "filters": list(flts), "exclude": exclude})


def race_cases(tier):
    specs = [[("a",), ("b", "ab")], [("a", "x"), ("d",)], [("b", "a", "d"), ("x",)], [("ab",), ("d", "x"), ("a",)]]
    flists = [("a",), ("tag:x",), ("type:bulk",), ("d", "tag:y"), ("zz",), ("type:search", "a")]
    if tier == "thorough":
        specs += [[("a",), ("b",), ("ab", "d", "x")], [("x", "d"), ("b", "a")]]
        flists = filter_lists()[:40]
    for sp in specs:
        for fl in flists:
            for exclude in (False, True):
                yield (sp, fl, exclude)


def _race_shard(cases):
    import logging

    logging.disable(logging.CRITICAL)
    res = Result()
    for sp, fl, ex in cases:
        check_raced(sp, fl, ex, res)
    return res


def check_malformed(res):
    from esrally import config, exceptions
    from esrally.track import loader

    for bad in MALFORMED:
        for key in ("include.tasks", "exclude.tasks"):
            cfg = config.Config()
            cfg.add(config.Scope.application, "track", key, ["a", bad])
            got = None
            try:
                loader.TaskFilterTrackProcessor(cfg)
                got = "accepted"
            except exceptions.SystemSetupError:
                got = "SystemSetupError"
            except Exception as e:  # noqa
                got = type(e).__name__
            res.case(nontrivial_key=("malformed", bad, key), outcome_key=("malformed", got))
            if got != "SystemSetupError":
                res.violation(f"filter:malformed-spec-{got}", f"filter spec {bad!r} in {key}: {got}", {"malformed": bad, "key": key})


def filter_lists():
    out = [(f,) for f in FILTERS]
    out += list(itertools.combinations(FILTERS, 2))
    # both orders for filters of different kinds that carry the same value
    out += [(b, a) for a, b in itertools.combinations(FILTERS, 2) if a.split(":")[-1] == b.split(":")[-1]]
    return out


def _shard(specs):
    import logging

    logging.disable(logging.CRITICAL)
    res = Result()
    fl = filter_lists()
    for i, spec in enumerate(specs):
        has_par = any(len(el) > 1 for el in spec)
        for flts in fl:
            for exclude in (False, True):
                check_case(spec, flts, exclude, 0, res)
                if has_par:
                    check_case(spec, flts, exclude, 0, res, capped=True)
        # the same rules apply to a challenge that is not the first one of the track
        for flts in fl[: len(FILTERS)]:
            for exclude in (False, True):
                check_case(spec, flts, exclude, 1, res)
    return res


def run(tier, seed):
    specs = schedule_specs(tier)
    res = par.pmap(_shard, par.chunks(specs, par.NPROC * 4), seed=seed)
    rc = list(race_cases(tier))
    res.merge(par.pmap(_race_shard, par.chunks(rc, par.NPROC), seed=seed))
    res.extra["raced_end_to_end"] = len(rc)
    check_malformed(res)
    res.extra["schedules"] = len(specs)
    res.extra["filter_lists"] = len(filter_lists())
    res.states = res.evaluations
    res.transitions = res.evaluations
    return res


def replay(data):
    import logging

    logging.disable(logging.CRITICAL)
    res = Result()
    if data.get("raced"):
        check_raced([tuple(e) for e in data["spec"]], tuple(data["filters"]), data["exclude"], res)
    elif "malformed" in data:
        check_malformed(res)
    else:
        check_case([tuple(e) for e in data["spec"]], tuple(data["filters"]), data["exclude"], data["pos"], res, capped=data.get("capped", False))
    return [v for lst in res.violations.values() for v in lst]
