"""C20 -- race comparison reports signed differences with the right direction.

Bounded-exhaustive enumeration of pairs of stored race results (GlobalStats dictionaries) through the real
ComparisonReporter._metrics_table (plain and rich) and reporter.write_single_report (markdown/csv to a scratch file),
against a reference table written from docs/tournament.rst and the statement.
"""
import contextlib
import io
import itertools
import os
import re
import shutil
import tempfile

from mc import par
from mc.core import Result

ID = "C20"
LEVEL = "exploration"
RULE = (
    "pairs of race results: for each of 16 metric families (single values with each unit conversion, per-shard dicts, ML jobs, "
    "transforms, ingest pipeline, GC, sizes, counts) every presence pattern (both / baseline only / contender only) x every ordered pair "
    "of the 9-value alphabet (0, 1, 1.000004, 2.5, 1000, 4e-6, -1, 200000, 200001), alone and on a background of all other families; task "
    "sections: every ordered pair of task lists of length <= 2 over 3 tasks (one named like another task's operation) x value pairs for "
    "throughput / latency percentiles / service time / processing time / error rate with several percentile-key subsets; each pair also "
    "swapped and self-compared; markdown and csv files. non-trivial = at least one row expected; distinct = (baseline, contender)"
)
ASSUMPTIONS = [
    "row labels and unit conversions transcribed from the reporter's documented output (docs/tournament.rst, summary_report.rst)",
    "where the statement is silent nothing is demanded: relative difference for a zero baseline; the sign/colour of differences whose "
    "magnitude lies between half a unit and one unit of the last printed digit; column whitespace of the markdown table",
]

V = [0, 1, 1.000004, 2.5, 1000, 4e-6, -1, 200000, 200001]
ANSI = re.compile(r"\x1b\[[0-9;]*m")
GREEN, RED, NEUTRAL = "\x1b[32;1m", "\x1b[31;1m", "\x1b[39;1m"

MS_MIN = 1 / 60000.0
MS_S = 1 / 1000.0
GB = 1 / (1024.0**3)
MB = 1 / (1024.0**2)

# family -> list of (key path, row label, task cell, unit, factor, up_is_good)
SINGLE = {
    "total_time": [(("total_time",), "Cumulative indexing time of primary shards", "", "min", MS_MIN, False)],
    "total_time_per_shard": [
        (("total_time_per_shard", "min"), "Min cumulative indexing time across primary shard", "", "min", MS_MIN, False),
        (("total_time_per_shard", "median"), "Median cumulative indexing time across primary shard", "", "min", MS_MIN, False),
        (("total_time_per_shard", "max"), "Max cumulative indexing time across primary shard", "", "min", MS_MIN, False),
    ],
    "merge_time": [(("merge_time",), "Cumulative merge time of primary shards", "", "min", MS_MIN, False)],
    "merge_count": [(("merge_count",), "Cumulative merge count of primary shards", "", "", 1.0, False)],
    "refresh_count": [(("refresh_count",), "Cumulative refresh count of primary shards", "", "", 1.0, False)],
    "flush_time": [(("flush_time",), "Cumulative flush time of primary shards", "", "min", MS_MIN, False)],
    "young_gc_time": [(("young_gc_time",), "Total Young Gen GC time", "", "s", MS_S, False)],
    "old_gc_count": [(("old_gc_count",), "Total Old Gen GC count", "", "", 1.0, False)],
    "store_size": [(("store_size",), "Store size", "", "GB", GB, False)],
    "translog_size": [(("translog_size",), "Translog size", "", "GB", GB, False)],
    "memory_segments": [(("memory_segments",), "Heap used for segments", "", "MB", MB, False)],
    "segment_count": [(("segment_count",), "Segment count", "", "", 1.0, False)],
    "ingest_pipeline_cluster_count": [(("ingest_pipeline_cluster_count",), "Total Ingest Pipeline count", "", "", 1.0, False)],
    "ingest_pipeline_cluster_time": [(("ingest_pipeline_cluster_time",), "Total Ingest Pipeline time", "", "ms", 1.0, False)],
}
PERCENTILES = [50, 90, 99, 99.9, 99.99, 100]


def pkey(p):
    return str(float(p)).replace(".", "_")


def set_path(d, path, val):
    for k in path[:-1]:
        d = d.setdefault(k, {})
    d[path[-1]] = val


def get_path(d, path):
    for k in path:
        if not isinstance(d, dict) or k not in d:
            return None
        d = d[k]
    return d


def fmt_diff(diff, precision, suffix):
    """returns (set of acceptable plain strings, colour class in {'+','-','0','?'})  '?' = either"""
    thr = 10**-precision
    s = f"{diff:.{precision}f}{suffix}"
    prints_zero = not any(ch in "123456789" for ch in s)
    if abs(abs(diff) - thr) < 1e-12:
        return {s, "+" + s}, "?"
    if diff >= thr:
        return {"+" + s}, "+"
    if diff <= -thr:
        return {s}, "-"
    if prints_zero:
        return {s}, "0"
    return {s, "+" + s}, "?"


DISK_STATS = [("inverted index", "disk_usage_inverted_index"), ("stored fields", "disk_usage_stored_fields"), ("doc values", "disk_usage_doc_values"),
              ("points", "disk_usage_points"), ("norms", "disk_usage_norms"), ("term vectors", "disk_usage_term_vectors"), ("total", "disk_usage_total")]


def disk_rows(b, c):
    """per-field disk usage: one row per (index, field, statistic) for indices present in both races, fields known to either race's
    totals, a missing statistic counts as 0, rows with 0 on both sides are left out; shown in the human unit of the smaller value"""
    if not b.get("disk_usage_total") or not c.get("disk_usage_total"):
        return []

    def collate(d):
        out = {}
        for stat, key in DISK_STATS:
            for fs in d.get(key) or []:
                out.setdefault(fs["index"], {}).setdefault(fs["field"], {})[stat] = fs["value"]
        return out

    cb, cc = collate(b), collate(c)
    fields = []
    for d in (b, c):
        for fs in d["disk_usage_total"]:
            if (fs["index"], fs["field"]) not in fields:
                fields.append((fs["index"], fs["field"]))
    rows = []
    for index, field in fields:
        if index not in cb or index not in cc:
            continue
        for stat, _key in DISK_STATS:
            vb = cb[index].get(field, {}).get(stat, 0)
            vc = cc[index].get(field, {}).get(stat, 0)
            if vb == 0 and vc == 0:
                continue
            m = abs(min(vb, vc))
            unit, factor = ("GB", GB) if m * GB > 1.0 else ("MB", MB) if m * MB > 1.0 else ("kB", 1 / 1024.0) if m / 1024.0 > 1.0 else ("bytes", 1.0)
            rows.append(dict(label=f"{index} {field} {stat}", task="", b=vb, c=vc, unit=unit, factor=factor, up=False))
    return rows


def expected_rows(b, c, show_processing=False):
    """list of dict(label, task, b, c, unit, factor, up)"""
    rows = []
    for fam, specs in SINGLE.items():
        for path, label, task, unit, factor, up in specs:
            vb, vc = get_path(b, path), get_path(c, path)
            if vb is not None and vc is not None:
                rows.append(dict(label=label, task=task, b=vb, c=vc, unit=unit, factor=factor, up=up))
    for jb in b.get("ml_processing_time", []):
        for jc in c.get("ml_processing_time", []):
            if jb["job"] == jc["job"]:
                for k, lab in (("min", "Min"), ("mean", "Mean"), ("median", "Median"), ("max", "Max")):
                    rows.append(dict(label=f"{lab} ML processing time", task=jb["job"], b=jb[k], c=jc[k], unit=jb["unit"], factor=1.0, up=False))
    for key, label, up in (
        ("total_transform_processing_times", "Transform processing time", False),
        ("total_transform_index_times", "Transform indexing time", False),
        ("total_transform_search_times", "Transform search time", False),
        ("total_transform_throughput", "Transform throughput", True),
    ):
        for tb in b.get(key) or []:
            for tc in c.get(key) or []:
                if tb["id"] == tc["id"]:
                    rows.append(dict(label=label, task=tb["id"], b=tb["mean"], c=tc["mean"], unit=tb["unit"], factor=1.0, up=up))
    rows.extend(disk_rows(b, c))
    btasks = {}
    for e in b.get("op_metrics", []):
        btasks.setdefault(e["task"], e)
    ctasks = {}
    for e in c.get("op_metrics", []):
        ctasks.setdefault(e["task"], e)
    for e in b.get("op_metrics", []):
        t = e["task"]
        if t not in ctasks or btasks[t] is not e:
            continue
        eb, ec = btasks[t], ctasks[t]
        for k, lab in (("min", "Min"), ("mean", "Mean"), ("median", "Median"), ("max", "Max")):
            vb, vc = eb["throughput"].get(k), ec["throughput"].get(k)
            if vb is not None and vc is not None:
                rows.append(dict(label=f"{lab} Throughput", task=t, b=vb, c=vc, unit=eb["throughput"]["unit"], factor=1.0, up=True))
        fams = [("latency", "latency"), ("service_time", "service time")]
        if show_processing:
            fams.append(("processing_time", "processing time"))
        for fam, name in fams:
            for p in PERCENTILES:
                vb, vc = eb[fam].get(pkey(p)), ec[fam].get(pkey(p))
                if vb is not None and vc is not None:
                    rows.append(dict(label=f"{p}th percentile {name}", task=t, b=vb, c=vc, unit="ms", factor=1.0, up=False))
        vb, vc = eb.get("error_rate"), ec.get("error_rate")
        if vb is not None and vc is not None:
            rows.append(dict(label="error rate", task=t, b=vb, c=vc, unit="%", factor=100.0, up=False))
    return rows


def colour_of(cell):
    if not isinstance(cell, str):
        return "plain"
    if cell.startswith(GREEN):
        return "green"
    if cell.startswith(RED):
        return "red"
    if cell.startswith(NEUTRAL):
        return "neutral"
    return "plain"


def close(a, b):
    return abs(a - b) <= 1e-9 * max(1.0, abs(a), abs(b))


def check_tables(b, c, plain, rich, show_processing):
    """returns (clause, message) or None"""
    exp = expected_rows(b, c, show_processing)
    if len(plain) != len(rich):
        return ("plain-rich-row-count", f"{len(plain)} plain rows vs {len(rich)} rich rows")
    got_keys = [(r[0], r[1]) for r in plain]
    exp_keys = [(e["label"], str(e["task"])) for e in exp]
    if sorted(got_keys) != sorted(exp_keys):
        missing = [k for k in exp_keys if k not in got_keys]
        extra = [k for k in got_keys if k not in exp_keys]
        dup = [k for k in set(got_keys) if got_keys.count(k) != exp_keys.count(k)]
        return ("row-set", f"missing rows {missing}, unexpected rows {extra}, multiplicity differs for {dup}")
    by_key = {}
    for e in exp:
        by_key.setdefault((e["label"], str(e["task"])), []).append(e)
    for rp, rr in zip(plain, rich):
        key = (rp[0], rp[1])
        e = by_key[key].pop(0)
        neg = e["b"] < 0 or e["c"] < 0
        tag = ":negative-value" if neg else ""
        if len(rp) != 7 or len(rr) != 7:
            return ("row-shape", f"{rp}")
        if (rr[0], rr[1], rr[2], rr[3], rr[5]) != (rp[0], rp[1], rp[2], rp[3], rp[5]):
            return ("plain-rich-cells-differ", f"{rp} vs {rr}")
        if not (close(rp[2], e["b"] * e["factor"]) and close(rp[3], e["c"] * e["factor"])):
            return ("value-cells" + tag, f"row {key}: shows baseline {rp[2]} contender {rp[3]}, results hold {e['b']} and {e['c']} (x{e['factor']:g})")
        if rp[5] != e["unit"]:
            return ("unit-cell", f"row {key}: unit {rp[5]!r}, expected {e['unit']!r}")
        # absolute difference
        d = (e["c"] - e["b"]) * e["factor"]
        acc, cls = fmt_diff(d, 5, "")
        if rp[4] not in acc:
            return ("diff-cell" + tag, f"row {key}: baseline {e['b']} contender {e['c']}: diff cell {rp[4]!r}, expected {sorted(acc)}")
        if ANSI.sub("", rr[4]) != rp[4] or ANSI.sub("", rr[6]) != rp[6]:
            return ("colour-codes-change-text", f"row {key}: plain {rp[4]!r}/{rp[6]!r} rich {rr[4]!r}/{rr[6]!r}")
        col = colour_of(rr[4])
        better = (d > 0) == e["up"]
        want_col = {"0": {"neutral"}, "?": {"neutral", "green" if better else "red"}}.get(cls, {"green" if better else "red"})
        if col not in want_col:
            return ("diff-colour" + tag, f"row {key} ({'higher' if e['up'] else 'lower'} is better): baseline {e['b']} contender {e['c']} diff {rp[4]} coloured {col}, expected {sorted(want_col)}")
        # relative difference
        colp = colour_of(rr[6])
        if e["b"] != 0:
            rel = (e["c"] - e["b"]) / abs(e["b"]) * 100.0
            accp, clsp = fmt_diff(rel, 2, "%")
            if e["b"] < 0:
                accn, _ = fmt_diff(-rel, 2, "%")
                mag_ok = rp[6] in accp or rp[6] in accn
                if not mag_ok:
                    return ("diff-pct-cell" + tag, f"row {key}: baseline {e['b']} contender {e['c']}: Diff % {rp[6]!r}, expected magnitude of {sorted(accp)}")
                if {col, colp} == {"green", "red"}:
                    return ("diff-pct-colour-contradicts-diff:negative-baseline", f"row {key}: baseline {e['b']} contender {e['c']}: Diff {rp[4]} is {col} but Diff % {rp[6]} is {colp}")
            else:
                if rp[6] not in accp:
                    return ("diff-pct-cell" + tag, f"row {key}: baseline {e['b']} contender {e['c']}: Diff % {rp[6]!r}, expected {sorted(accp)}")
                want_colp = {"0": {"neutral"}, "?": {"neutral", "green" if better else "red"}}.get(clsp, {"green" if better else "red"})
                if colp not in want_colp:
                    return ("diff-pct-colour" + tag, f"row {key}: baseline {e['b']} contender {e['c']}: Diff % {rp[6]} coloured {colp}, expected {sorted(want_colp)}")
        if colour_of(rp[4]) != "plain" or colour_of(rp[6]) != "plain":
            return ("plain-table-has-colour", f"{rp}")
    return None


_CTX = {}


def reporter(show_processing, fmt="markdown", path=""):
    from esrally import config
    from esrally import reporter as rep
    from esrally.utils import console

    console.format = console.RichFormat
    console.QUIET = False
    console.ASSUME_TTY = True
    console.RALLY_RUNNING_IN_DOCKER = False
    cfg = config.Config()
    cfg.add(config.Scope.application, "reporting", "output.path", path)
    cfg.add(config.Scope.application, "reporting", "format", fmt)
    cfg.add(config.Scope.application, "reporting", "output.processingtime", show_processing)
    cfg.add(config.Scope.application, "node", "rally.cwd", "/")
    return rep.ComparisonReporter(cfg)


def tables(b, c, show_processing):
    from esrally import metrics

    r = reporter(show_processing)
    # the same reporter and the same two stats objects for both passes, plain first: exactly what ComparisonReporter.report() does
    sb, sc_ = metrics.GlobalStats(b), metrics.GlobalStats(c)
    plain = r._metrics_table(sb, sc_, plain=True)
    rich = r._metrics_table(sb, sc_, plain=False)
    # (materialised only after both have been built, as _write_report consumes them)
    return list(plain), list(rich)


def check_pair(b, c, res, show_processing=False, label=""):
    import copy

    try:
        plain, rich = tables(copy.deepcopy(b), copy.deepcopy(c), show_processing)
        v = check_tables(b, c, plain, rich, show_processing)
        if v is None:
            # self comparison: no difference anywhere
            ps, rs = tables(copy.deepcopy(b), copy.deepcopy(b), show_processing)
            for rp, rr in zip(ps, rs):
                if any(ch in "123456789" for ch in rp[4] + rp[6]) or "+" in rp[4] + rp[6] or colour_of(rr[4]) != "neutral" or colour_of(rr[6]) != "neutral":
                    v = ("self-comparison-shows-difference", f"row {rp} / {rr}")
                    break
        if v is None:
            # swap: every non-neutral sign and colour flips
            psw, rsw = tables(copy.deepcopy(c), copy.deepcopy(b), show_processing)
            if sorted((r[0], r[1]) for r in psw) != sorted((r[0], r[1]) for r in plain):
                v = ("swap-changes-rows", f"{[(r[0], r[1]) for r in psw]} vs {[(r[0], r[1]) for r in plain]}")
            else:
                idx = {}
                for rp, rr in zip(psw, rsw):
                    idx.setdefault((rp[0], rp[1]), []).append((rp, rr))
                for rp, rr in zip(plain, rich):
                    sp, sr = idx[(rp[0], rp[1])].pop(0)
                    c1, c2 = colour_of(rr[4]), colour_of(sr[4])
                    if {c1, c2} <= {"green", "red"} and c1 == c2:
                        v = ("swap-keeps-colour", f"row {rp} and swapped {sp} are both {c1}")
                        break
                    if c1 in ("green", "red") and c2 in ("green", "red") and rp[4].startswith("+") == sp[4].startswith("+"):
                        v = ("swap-keeps-sign", f"row {rp} and swapped {sp}")
                        break
    except Exception as e:  # noqa
        import traceback

        v = ("reporter-raises", f"{type(e).__name__}: {e} @ {traceback.extract_tb(e.__traceback__)[-1][:3]}")
        plain = []
    res.case(
        case_repr={"baseline": b, "contender": c, "rows": [[str(x) for x in r] for r in plain[:3]]} if res.sample_now(2003) else None,
        nontrivial_key=(repr(b), repr(c), show_processing) if plain else None,
        outcome_key=(len(plain), v[0] if v else "ok", tuple(r[4][:1] + r[6][:1] for r in plain[:4])),
    )
    if v:
        res.violation(f"compare:{v[0]}", f"{label}: {v[1]}", {"b": b, "c": c, "show_processing": show_processing, "kind": "pair"})


def _race(name, results):
    import types

    return types.SimpleNamespace(results=results, race_id=name, race_timestamp="20260101T000000Z", challenge_name="c", car_name="defaults", user_tags={})


def check_files(b, c, res):
    """the file text equals the console text without colour codes (csv exactly; markdown cell by cell)"""
    from esrally import metrics

    d = tempfile.mkdtemp(prefix="verif-c20-")
    try:
        for fmt in ("csv", "markdown"):
            path = os.path.join(d, f"report.{fmt}")
            r = reporter(False, fmt, path)
            buf = io.StringIO()
            with contextlib.redirect_stdout(buf):
                # the public entry point, so that the order in which the two tables are built and written is the implementation's own
                r.report(_race("baseline", b), _race("contender", c))
            raw = buf.getvalue()
            # the table starts at its header line (the race descriptions above it are not part of the report file)
            lines = raw.splitlines()
            first = next((i for i, ln in enumerate(lines) if "Metric" in ln and "Baseline" in ln and "Diff" in ln), len(lines))
            raw = "\n".join(lines[first:])
            console_text = ANSI.sub("", raw)
            file_text = open(path, encoding="utf-8").read() if os.path.exists(path) else None

            def cells(t):
                if fmt == "csv":
                    return [ln for ln in t.strip().splitlines()]
                return [[x.strip().strip(":-") for x in ln.strip().strip("|").split("|")] for ln in t.strip().splitlines()]

            v = None
            if file_text is None:
                v = ("no-report-file", fmt)
            elif cells(console_text) != cells(file_text):
                v = ("file-differs-from-console", f"{fmt}: console {cells(console_text)[:4]} file {cells(file_text)[:4]}")
            elif raw == console_text and len(cells(console_text)) > 2:
                v = ("console-has-no-colour", fmt)
            res.case(nontrivial_key=("file", fmt, repr(b), repr(c)), outcome_key=("file", fmt, v[0] if v else "ok", len(cells(console_text))))
            if v:
                res.violation(f"compare:{v[0]}:{fmt}", v[1], {"b": b, "c": c, "kind": "file"})
    finally:
        shutil.rmtree(d, ignore_errors=True)


# ----------------------------------------------------------------------------------------------- generators


def background(scale):
    d = {}
    for fam, specs in SINGLE.items():
        for path, *_ in specs:
            set_path(d, path, 17.0 * scale)
    d["ml_processing_time"] = [{"job": "job1", "min": 1.0 * scale, "mean": 2.0 * scale, "median": 2.0 * scale, "max": 3.0 * scale, "unit": "ms"}]
    for key in ("total_transform_processing_times", "total_transform_index_times", "total_transform_search_times", "total_transform_throughput"):
        d[key] = [{"id": "tr1", "mean": 5.0 * scale, "unit": "docs/s" if key.endswith("throughput") else "ms"}]
    d["op_metrics"] = [task_entry("index", "bulk", 100.0 * scale, 10.0 * scale, 0.0)]
    return d


def task_entry(task, operation, thr, lat, err, keys=None):
    keys = PERCENTILES if keys is None else keys

    def pct(base):
        out = {pkey(p): base for p in keys}
        out["mean"] = base
        out["unit"] = "ms"
        return out

    return {
        "task": task,
        "operation": operation,
        "throughput": {"min": thr, "mean": thr, "median": thr, "max": thr, "unit": "docs/s"},
        "latency": pct(lat),
        "service_time": pct(lat),
        "processing_time": pct(lat),
        "error_rate": err,
        "duration": 1000,
    }


def family_cases():
    """(label, baseline dict, contender dict)"""
    fams = list(SINGLE) + ["ml", "transform_throughput", "transform_processing"]
    for fam in fams:
        for bg in (False, True):
            for vb, vc in itertools.product(V + [None], repeat=2):
                if vb is None and vc is None:
                    continue
                b = background(1.0) if bg else {}
                c = background(2.0) if bg else {}
                for d, v in ((b, vb), (c, vc)):
                    if fam in SINGLE:
                        for path, *_ in SINGLE[fam]:
                            if v is None:
                                cur = d
                                for k in path[:-1]:
                                    cur = cur.get(k, {})
                                cur.pop(path[-1], None)
                            else:
                                set_path(d, path, v)
                    elif fam == "ml":
                        # the common job sits at different positions of the two lists (the contender has its private job in front)
                        mine = {"job": "jobA", "min": v, "mean": v, "median": v, "max": v, "unit": "ms"}
                        other = {"job": "jobB" if d is b else "jobC", "min": 1, "mean": 1, "median": 1, "max": 1, "unit": "ms"}
                        d["ml_processing_time"] = [] if v is None else ([mine, other] if d is b else [other, mine])
                    else:
                        keys = ["total_transform_processing_times", "total_transform_index_times", "total_transform_search_times", "total_transform_throughput"]
                        target = keys[3] if fam == "transform_throughput" else keys[0]
                        for k in keys:
                            d[k] = [{"id": "trX", "mean": 3.0, "unit": "docs/s" if k.endswith("throughput") else "ms"}]
                        if v is None:
                            d[target] = []
                        else:
                            d[target] = [{"id": "trX", "mean": v, "unit": "docs/s" if target.endswith("throughput") else "ms"}]
                yield f"{fam} bg={bg} b={vb} c={vc}", b, c


DISK_V = [0, 1, 500, 2048, 3 * 1024**2, 5 * 1024**3, 5 * 1024**3 + 1]


def disk_cases():
    """per-field disk usage: field f1 with every pair of byte values (total and inverted index), a field only in the baseline, a field only
    in the contender, an index only in one race; with and without the other families in the background"""
    def usage(v, other_field, other_index):
        d = {key: [] for _stat, key in DISK_STATS}
        if v is not None:
            d["disk_usage_total"] = [{"index": "idx", "field": "f1", "value": v}, {"index": "idx", "field": other_field, "value": 4096},
                                     {"index": other_index, "field": "f1", "value": 77}]
            d["disk_usage_inverted_index"] = [{"index": "idx", "field": "f1", "value": v // 2}]
            d["disk_usage_doc_values"] = [{"index": "idx", "field": other_field, "value": 1024}]
        return d

    for bg in (False, True):
        for vb, vc in itertools.product(DISK_V + [None], repeat=2):
            if vb is None and vc is None:
                continue
            b = background(1.0) if bg else {}
            c = background(2.0) if bg else {}
            b.update(usage(vb, "only-baseline", "idx-b"))
            c.update(usage(vc, "only-contender", "idx-c"))
            yield f"disk bg={bg} b={vb} c={vc}", b, c


TASKS = [("warmup-search", "search"), ("search", "search"), ("index", "bulk")]
KEYSETS = [PERCENTILES, [50, 100], [50, 90, 99, 100], []]


def task_cases(tier):
    lists = [()]
    for n in (1, 2):
        lists += list(itertools.permutations(range(len(TASKS)), n))
    pairs = list(itertools.product(V, repeat=2))
    k = 0
    for lb in lists:
        for lc in lists:
            if not lb and not lc:
                continue
            # values: every task gets distinct numbers so a row showing another task's numbers is visible
            for (vb, vc) in pairs if (len(lb) <= 1 and len(lc) <= 1) or tier == "thorough" else pairs[:: 7]:
                k += 1
                ks_b = KEYSETS[k % len(KEYSETS)]
                ks_c = KEYSETS[(k // len(KEYSETS)) % len(KEYSETS)]
                b = {"op_metrics": [task_entry(*TASKS[i], vb + 10 * j, vb + 3 * i, (abs(vb) % 1.0) if i else 0.0, ks_b) for j, i in enumerate(lb)]}
                c = {"op_metrics": [task_entry(*TASKS[i], vc + 10 * j, vc + 5 * i, (abs(vc) % 1.0) if i else 0.5, ks_c) for j, i in enumerate(lc)]}
                yield f"tasks b={lb} c={lc} vb={vb} vc={vc}", b, c


def _shard(cases):
    import logging

    logging.disable(logging.CRITICAL)
    res = Result()
    for i, (label, b, c) in enumerate(cases):
        check_pair(b, c, res, show_processing=(i % 3 == 0), label=label)
        if i % 25 == 0:
            check_files(b, c, res)
    return res


def run(tier, seed):
    cases = list(family_cases()) + list(disk_cases()) + list(task_cases(tier))
    res = par.pmap(_shard, par.chunks(cases, par.NPROC * 4), seed=seed)
    res.extra["value_alphabet"] = V
    res.extra["pairs_of_results"] = len(cases)
    res.states = res.evaluations
    res.transitions = res.evaluations
    return res


def replay(data):
    import logging

    logging.disable(logging.CRITICAL)
    res = Result()
    if data["kind"] == "file":
        check_files(data["b"], data["c"], res)
    else:
        check_pair(data["b"], data["c"], res, data["show_processing"], "replay")
    return [v for lst in res.violations.values() for v in lst]
