"""C07 -- every request sample reaches the metrics store exactly once.

Simulated races (mc/racesim.py) with race control's hand-over emulated by the same calls BenchmarkCoordinator makes
(bulk_add of the metrics carried by TaskFinished / BenchmarkComplete into an in-memory store).  Deviation-bounded exploration of
message / wake-up / thread / preemption orders; at the end the store is compared with the request log of the simulated cluster.
"""
import datetime

from mc import explore, loadgen, par, racesim
from mc.core import Result

ID = "C07"
LEVEL = "model_checking"
RULE = (
    "configurations: S1 (two sequential tasks), S2 (parallel then task), S5b (over-committed parallel: several rows per step on one worker), "
    "S9 (three tasks stacked on one client, each ending exactly on a worker wake-up), S10 (8 s service times so that the driver's 30 s periodic "
    "post-processing fires inside a task), S11 (composite operation with two named dependent sub-requests), S12 (the last task ends exactly on a "
    "worker wake-up), S13 (completed-by with a sibling request in flight), S15 (40 s of short requests across the periodic post-processing; S16: 40000 requests within one wake-up interval; S17: a sparse task (one request per 50 s) next to a busy one across the 30 s post-processing rounds; "
    "default schedule) x layouts {1x1, 1x2, 2x1} x "
    "downsampling {1, 2} x sample queue {default, 2}; the Elasticsearch-backed store's buffer under every sequence of <= 4 (6) put / "
    "flush operations; schedules: every sequence of message deliveries, wake-ups, thread steps, time advances "
    "and handler preemptions within the deviation bound. non-trivial = execution with at least one deviation; distinct = (configuration, choices)"
)
ASSUMPTIONS = [
    "race control = the environment doing what BenchmarkCoordinator.on_task_finished / on_benchmark_complete do (metrics_store.bulk_add); in-memory store",
    "transport / threads as in C01; at bound 1 a handler is preemptible by its executor thread at sync points (future.done/exception, "
    "Sampler.samples); at bound 2 additionally before every line of the worker's handler code in esrally/driver/driver.py (sys.settrace)",
]

HORIZON = 250.0


def T(key, clients=1, it=None, **op):
    return loadgen.make_task(key, key, clients=clients, iterations=it, op_params=op or None)


def composite_task():
    e = loadgen.setup()
    track = e["track"]
    reqs = [
        {"stream": [{"operation-type": "raw-request", "name": "sub-a", "path": "/cverif/sub-a", "method": "GET"}]},
        {"operation-type": "sleep", "name": "sub-s", "duration": 0.25},
    ]
    op = track.Operation("comp-op", "composite", params={"requests": reqs, "task-key": "comp"}, param_source=loadgen.SOURCE)
    return track.Task("comp", op, clients=1, iterations=2)


def P(tasks, clients=None):
    from esrally.track import track

    return track.Parallel(tasks, clients=clients)


SHAPES = {
    "S1": lambda: [T("a", 2, it=3), T("b", 1, it=2)],
    "S2": lambda: [P([T("a", 1, it=2), T("b", 1, it=3)]), T("c", 2, it=1)],
    "S5b": lambda: [P([T("a", 1, it=2), T("b", 1, it=2), T("c", 1, it=1)], clients=2), T("d", 2, it=1)],
    "S9": lambda: [P([T("a", 1, it=10), T("b", 1, it=10), T("c", 1, it=2)], clients=1), T("d", 1, it=1)],
    "S10": lambda: [T("a", 1, it=5), T("b", 1, it=1)],
    "S11": lambda: [composite_task(), T("b", 1, it=1)],
    # the last task of the race ends exactly on a worker wake-up: the final join point races with the last sample shipment
    "S12": lambda: [T("a", 1, it=10)],
    # completed-by: the sibling has a request in flight when the named task finishes
    # 40 s of short requests (4 per second): the driver's 30 s periodic post-processing cuts the task's samples into several batches with
    # several samples per throughput bucket (default schedule only)
    "S15": lambda: [T("a", 2, it=80), T("b", 1, it=1)],
    # 40000 very short requests within one worker wake-up interval: far more samples queued when the worker finally drains (twice: wake-up,
    # then join point) than any plausible batch size below the queue capacity (default schedule only)
    # a busy task next to a sparse one (one request every 50 s): some periodic post-processing rounds contain no sample of the sparse task
    # although it is still running (default schedule only)
    "S17": lambda: [P([T("a", 1, it=320), T("b", 1, it=3)]), T("c", 1, it=1)],
    "S16": lambda: [T("a", 1, it=40000), T("b", 1, it=1)],
    "S13": lambda: [P([loadgen.make_task("a", "a", clients=1, iterations=3, completes_parent=True),
                       loadgen.make_task("b", "b", clients=1, time_period=100_000, warmup_time_period=0)]), T("c", 2, it=1)],
}
LAYOUTS = {"1x1": (["localhost"], 1), "1x2": (["localhost"], 2), "2x1": (["localhost", "h2"], 1)}


def behaviour_for(shape):
    def behaviour(entry):
        if shape == "S16":
            return {"service_time": 0.0001220703125 if "/verif/a/" in entry["target"] else 0.5, "body": {}}
        if shape == "S17":
            return {"service_time": 50.0 if "/verif/b/" in entry["target"] else 0.5, "body": {}}
        st = 8.0 if shape == "S10" and "/verif/a/" in entry["target"] else (0.75 if shape == "S13" and "/verif/b/" in entry["target"] else 0.5)
        return {"service_time": st, "body": {}}

    return behaviour


def configs(tier):
    out = []
    for shape in SHAPES:
        if shape in ("S15", "S16", "S17"):
            continue
        for lname in LAYOUTS:
            if shape in ("S9", "S10", "S11", "S12") and lname != "1x1" and tier == "quick":
                continue
            if shape == "S13" and lname == "1x1":
                continue
            for factor, qsize in ((1, None), (2, None), (1, 2)):
                if (factor, qsize) != (1, None) and lname != "1x1":
                    continue
                out.append((shape, lname, factor, qsize))
    return out


def check_race(cfg, ch, res):
    shape, lname, factor, qsize = cfg[:4]
    lp = len(cfg) > 4 and cfg[4] is True  # line-level preemption of worker handlers by the executor thread
    tp = len(cfg) > 4 and cfg[4] == "thread"  # preemption of the executor thread between the lines of Sampler.add
    tm = len(cfg) > 4 and cfg[4] == "test-mode"  # --test-mode: no waiting period between steps, shorter wake-up interval
    schedule = SHAPES[shape]()
    hosts, cores = LAYOUTS[lname]
    extra = {}
    if factor != 1:
        extra[("reporting", "metrics.request.downsample.factor")] = factor
    if qsize:
        extra[("reporting", "sample.queue.size")] = qsize
    # every batch of raw samples that the driver post-processes is also kept aside (harness side): at the end the same samples go through
    # a fresh ThroughputCalculator in ONE batch, which gives the reference for the throughput values the race stored
    drv = racesim.setup()["driver"]
    batches = []
    orig_pp = drv.SamplePostprocessor.__call__

    def recording_pp(self, raw_samples):
        batches.append(list(raw_samples))
        return orig_pp(self, raw_samples)

    drv.SamplePostprocessor.__call__ = recording_pp
    try:
        r = racesim.run_race(schedule, hosts, cores, behaviour_for(shape), ch, horizon=HORIZON, cfg_extra=extra, store=True, line_preempt=lp, thread_preempt=tp, test_mode=tm,
                             max_steps=2_000_000 if shape == "S16" else 20000)
    finally:
        drv.SamplePostprocessor.__call__ = orig_pp
    names = [n for _t, n, _m in r.received]
    v = None
    docs = r.rc.store.docs if hasattr(r, "rc") and r.rc.store is not None else []
    if r.handler_errors:
        v = ("handler-raises", f"{r.handler_errors[0][:2]}: {r.handler_errors[0][2][-300:]}")
    elif r.phase != "complete":
        v = ("race-not-complete", f"status {r.status} phase {r.phase} at {r.end_time}: {names} {r.error}")
    else:
        # expected records from the request log
        exp = {}  # (task, client id) -> list of service times (ms)
        comp_inv = 0
        for e in r.log:
            if e["target"].startswith("/cverif/"):
                continue
            _, _, tkey, ci, kk, _w = e["target"].split("/")
            exp.setdefault((tkey, e["client_id"]), []).append(round((e["t_end"] - e["t_start"]) * 1000.0, 6))
        sub_a = [e for e in r.log if e["target"] == "/cverif/sub-a"]
        got = {}
        for d in docs:
            if d["name"] in ("latency", "service_time", "processing_time"):
                got.setdefault((d["name"], d.get("task"), d.get("operation"), d["meta"].get("client_id")), []).append(d)
        lossy = factor != 1 or qsize is not None
        tasks = {t.name: t for el in schedule for t in el}
        # composite: one invocation per iteration (not visible as /verif/ requests); derive from sub-request count
        if shape == "S11":
            exp[("comp", 0)] = [None] * len(sub_a)
        for (tkey, cid), svcs in sorted(exp.items()):
            t = tasks[tkey]
            opname = t.operation.name
            for metric in ("latency", "service_time", "processing_time"):
                recs = got.get((metric, tkey, opname, cid), [])
                if len(recs) > len(svcs):
                    v = ("duplicate-records", f"{len(recs)} {metric} records for {len(svcs)} requests of task {tkey} client {cid}")
                elif len(recs) < len(svcs) and not lossy:
                    v = ("lost-records", f"{len(recs)} {metric} records for {len(svcs)} requests of task {tkey} client {cid}")
                elif any(d.get("operation-type") != t.operation.type for d in recs):
                    v = ("record-labels", f"operation type {[d.get('operation-type') for d in recs]} for task {tkey}")
                elif metric == "service_time" and not lossy and svcs[0] is not None and sorted(round(d["value"], 6) for d in recs) != sorted(svcs):
                    v = ("service-time-values", f"task {tkey} client {cid}: records {sorted(d['value'] for d in recs)} requests {sorted(svcs)}")
                if v:
                    break
            if v:
                break
        if v is None:
            known = {(m, tk, tasks[tk].operation.name, cid) for (tk, cid) in exp for m in ("latency", "service_time", "processing_time")}
            sub_keys = set()
            if shape == "S11":
                for sub, typ in (("sub-a", "raw-request"), ("sub-s", "sleep")):
                    k = ("service_time", "comp", sub, 0)
                    sub_keys.add(k)
                    recs = got.get(k, [])
                    want = len(sub_a)
                    if len(recs) != want and not (lossy and len(recs) < want):
                        v = ("dependent-records", f"{len(recs)} service_time records for sub-request {sub}, expected {want} (one per composite invocation)")
                    elif any(d.get("operation-type") != typ for d in recs):
                        v = ("dependent-record-labels", f"sub-request {sub}: operation types {[d.get('operation-type') for d in recs]}")
                    if v:
                        break
            extra_keys = [k for k in got if k not in known and k not in sub_keys]
            if v is None and extra_keys:
                v = ("phantom-records", f"records for {extra_keys[:4]} that match no request")
        if v is None and batches:
            # throughput values: the last value of every task, and every value at a time that the one-batch reference also reports, must
            # equal what a fresh calculator makes of all samples at once (however the race happened to batch them)
            allsamples = [smp for b in batches for smp in b]
            ref = drv.ThroughputCalculator().calculate(allsamples)
            for task_obj, tuples in ref.items():
                mine = sorted((d["@timestamp"], d["value"]) for d in docs if d["name"] == "throughput" and d.get("task") == task_obj.name)
                want = sorted((int(round(at * 1000)), val) for at, _rt, _st, val, _u in tuples)
                if not mine or not want:
                    continue
                wmap = {}
                for ts, val in want:
                    wmap.setdefault(ts, []).append(val)
                bad = [(ts, val, wmap[ts]) for ts, val in mine if ts in wmap and not any(abs(val - w) <= 1e-9 * max(1.0, abs(w)) for w in wmap[ts])]
                if bad:
                    v = ("throughput-depends-on-batching", f"task {task_obj.name}: stored {bad[0][1]} at {bad[0][0]} ms, all samples in one batch give {bad[0][2]}")
                    break
                if abs(mine[-1][1] - want[-1][1]) > 1e-9 * max(1.0, abs(want[-1][1])) and mine[-1][0] == want[-1][0]:
                    v = ("final-throughput", f"task {task_obj.name}: last stored value {mine[-1]}, one batch gives {want[-1]}")
                    break
        if v is None:
            # every task with requests has throughput records (throughput is computed from all samples)
            thr_tasks = {d.get("task") for d in docs if d["name"] == "throughput"}
            missing = [tk for (tk, _c) in exp if tk not in thr_tasks]
            if missing:
                v = ("no-throughput", f"no throughput record for tasks {sorted(set(missing))}")
    res.case(
        case_repr={"shape": shape, "layout": lname, "downsample": factor, "queue_size": qsize, "line_preemption": lp, "choices": list(ch.choices)[:60], "requests": len(r.log),
                   "store_records": len(docs)}
        if res.sample_now(1009)
        else None,
        nontrivial_key=(cfg, tuple(ch.choices)) if any(ch.choices) else None,
        outcome_key=(shape, len(docs), len(r.log), v[0] if v else "ok", round(r.end_time, 2)),
    )
    if lp and any(t[0] == "preempt" and t[1].startswith("line:") for t in r.sim.trace):
        res.count("executions_with_a_line_level_preemption")
    res.states += r.steps
    if v:
        res.violation(
            f"samples:{v[0]}:{shape}" + (":downsampled" if factor != 1 else "") + (":small-queue" if qsize else ""),
            f"{shape} layout={lname} downsample={factor} queue={qsize} deviations={ch.deviations} choices={[(i, c) for i, c in enumerate(ch.choices) if c]}: {v[1]}",
            {"cfg": list(cfg), "choices": list(ch.choices)},
        )
    return r


DIFF_JOBS = [("single", "S16", "1x1"), ("single", "S17", "1x2"), ("single", "S15", "1x1"), ("single", "S15", "1x2"), ("pair", "S1"), ("pair", "S5b"), ("pair", "S9")]


def _diff_job(job):
    res = Result()
    if job[0] == "single":
        check_race((job[1], job[2], 1, None), explore.Chooser(()), res)
        return res
    shape = job[1]
    thr = {}
    for factor in (1, 2):
        r = check_race((shape, "1x1", factor, None), explore.Chooser(()), res)
        docs = r.rc.store.docs if r.rc.store is not None else []
        thr[factor] = sorted((d.get("task"), d["sample-type"], round(d["value"], 9), round(d["relative-time"], 6)) for d in docs if d["name"] == "throughput")
    if thr[1] != thr[2]:
        res.violation(
            f"samples:throughput-depends-on-downsampling:{shape}",
            f"{shape}: throughput records with factor 1 {thr[1][:6]} vs factor 2 {thr[2][:6]}",
            {"cfg": [shape, "1x1", 2, None], "choices": [], "differential": True},
        )
    return res


def differential(res, seed=0, parallel=True):
    """default-schedule-only scenarios (long tasks) and: downsampling must not change throughput (same default schedule, factor 1 and 2)"""
    if parallel:
        res.merge(par.pmap(_diff_job, DIFF_JOBS, seed=seed))
    else:
        for job in DIFF_JOBS:
            res.merge(_diff_job(job))


def check_es_store_buffer(res, maxlen):
    """the Elasticsearch-backed metrics store (not the default) buffers records and ships them with every flush: for every sequence of
    put / flush(refresh=False) (what the post-processor issues after every round) / flush() followed by close(), every record is
    bulk-indexed exactly once, in order"""
    import itertools

    s = racesim.setup()
    m = s["metrics"]

    class FakeClient:
        def __init__(self):
            self.indexed = []

        def bulk_index(self, index, items):
            self.indexed.extend(d["value"] for d in items)

        def exists(self, index):
            return True

        def template_exists(self, name):
            return False

        def put_template(self, name, template):
            pass

        def refresh(self, index):
            pass

        def create_index(self, index):
            pass

    class Factory:
        def __init__(self, cfg):
            pass

        def create(self):
            return FakeClient()

    class Templates:
        def __init__(self, cfg):
            pass

        def metrics_template(self):
            return "{}"

    cfg = racesim.make_config(["localhost"], 1)
    for n in range(0, maxlen + 1):
        for word in itertools.product(("put", "flush-no-refresh", "flush"), repeat=n):
            store = m.EsMetricsStore(cfg, client_factory_class=Factory, index_template_provider_class=Templates)
            v = None
            k = 0
            try:
                store.open("verif-race", datetime.datetime(2026, 1, 1), "verif", "c", "external", create=True)
                for w in word:
                    if w == "put":
                        k += 1
                        store.put_value_cluster_level("service_time", float(k), "ms", task="a", operation="a-op", operation_type="search",
                                                      sample_type=m.SampleType.Normal, absolute_time=1000.0 + k, relative_time=float(k))
                    else:
                        store.flush(refresh=w == "flush")
                store.close()
                got = store._client.indexed
                if got != [float(i) for i in range(1, k + 1)]:
                    v = ("es-store-records", f"{k} records were put, the store bulk-indexed values {got}")
            except Exception as e:  # noqa
                v = ("es-store-raises", f"{type(e).__name__}: {e}")
            res.case(
                case_repr={"es_store_operations": list(word) + ["close"]} if res.sample_now(41) else None,
                nontrivial_key=("es-store", word) if k and len(word) > k else None,
                outcome_key=("es-store", k, v[0] if v else "ok"),
            )
            if v:
                res.violation(f"samples:{v[0]}", f"operations {list(word) + ['close']}: {v[1]}", {"es_store": list(word)})


def run(tier, seed):
    cfgs = configs(tier)
    res = explore.explore_parallel(check_race, cfgs, 1, seed=seed)
    deep = [c for c in cfgs if c[0] in ("S9", "S12") and c[2] == 1 and c[3] is None and c[1] == "1x1"]
    if tier == "thorough":
        deep = [c for c in cfgs if c[0] in ("S9", "S12", "S13", "S5b", "S2") and c[2] == 1 and c[3] is None]
    # at bound 2 every line of a worker handler (esrally/driver/driver.py) is a preemption point for an executor step due at that instant
    deep = [tuple(c) + (True,) for c in deep]
    r2 = explore.explore_parallel(check_race, deep, 2, seed=seed, max_exec_per_subtree=150 if tier == "quick" else 40000)
    res.merge(r2)
    # the other direction: the executor thread preempted inside Sampler.add by a wake-up that is due at the same instant (bound 1)
    tcfgs = [(c[0], c[1], c[2], c[3], "thread") for c in cfgs if c[0] in ("S9", "S12") and c[1] == "1x1" and c[2] == 1 and c[3] is None]
    r3 = explore.explore_parallel(check_race, tcfgs, 1, seed=seed)
    res.merge(r3)
    res.extra["configurations_with_executor_thread_preemption"] = len(tcfgs)
    # --test-mode races: the next step starts without a waiting period, the hand-over of a step's metrics races with the next step
    mcfgs = [(c[0], c[1], c[2], c[3], "test-mode") for c in cfgs if c[0] in ("S1", "S2", "S5b", "S12") and c[2] == 1 and c[3] is None]
    r4 = explore.explore_parallel(check_race, mcfgs, 1, seed=seed)
    res.merge(r4)
    res.extra["configurations_in_test_mode"] = len(mcfgs)
    differential(res, seed=seed)
    check_es_store_buffer(res, 4 if tier == "quick" else 6)
    res.extra["configurations"] = len(cfgs)
    res.extra["configurations_at_bound_2"] = len(deep)
    res.bound_completed = "1 on every configuration, 2 on configurations_at_bound_2" + ("" if res.exhaustive else " (capped)")
    return res


def replay(data):
    res = Result()
    if "es_store" in data:
        check_es_store_buffer(res, len(data["es_store"]))
        return [v for lst in res.violations.values() for v in lst]
    c = data["cfg"]
    if data.get("differential"):
        differential(res, parallel=False)
    else:
        check_race(tuple(c), explore.Chooser(tuple(data["choices"])), res)
    return [v for lst in res.violations.values() for v in lst]
