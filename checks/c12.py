"""C12 -- cluster engine start/stop is all-or-nothing across hosts and reports failures.

Explicit-state search over the real MechanicActor, Dispatcher and NodeMechanicActor and the real Mechanic helper (recording
stub supplier / provisioners / launcher): every order of message deliveries, timer firings, remote daemons joining (targets,
non-target daemons, daemons without an ip capability) and one daemon departure, for every configuration; canonical state
hashing, no deviation bound.  Race control is the environment.
"""
import datetime

from mc import vclock

vclock.install()

import thespian.actors as ta  # noqa: E402

from mc import actorsim, explore, par  # noqa: E402
from mc.core import Result, h  # noqa: E402
from mc.vclock import CLOCK  # noqa: E402

ID = "C12"
LEVEL = "model_checking"
RULE = (
    "configurations: target-host lists {[local], [local, r1], [r1, r2], [r1:9200, r1:9201], [local:9200, local:9201], [local, r1:9200, "
    "r1:9201], [local, r1, local], [r1, r2, r1]} x {no fault, launcher fails on each host, provisioning fails for the last node of a multi-node host, stopping fails on a host, a member daemon is shut down during start-up (any time before its nodes "
    "have started: listeners get the convention update, its actors die, their parents get ChildActorExited, later creations abort)} x {a non-target daemon / a daemon without "
    "ip capability also joins} x preserve-install {off, on} plus externally provisioned clusters; per configuration ALL reachable "
    "states: transitions = deliver the head of any sender/receiver channel | fire any pending timer | a remote daemon joins | the departure. "
    "Launcher layer: the real ProcessLauncher.stop for 1..3 nodes on a host x every per-node process fate (alive, needs kill, already dead, dies on terminate, dies before kill) x metrics store present/absent. "
    "non-trivial = configuration with more than one node actor or a fault; distinct = canonical state"
)
ASSUMPTIONS = [
    "transport = mc/actorsim.py in untimed mode (timers may fire at any moment); remote daemons join the convention in any order, before "
    "or after the Dispatcher registers (members are announced on registration); convention semantics as observed on the real Thespian",
    "race control (environment): StartEngine first; StopEngine on EngineStarted; ActorExitRequest to the mechanic on BenchmarkFailure",
    "canonical state: per actor (class, alive, status, children/response counts, pending/remotes sizes, mechanic present), channel contents "
    "by message class in order, pending timers, stub call log without periodic flushes, environment flags",
]

_S = {}
LOCAL = "127.0.0.1"
R1, R2, OTHER = "10.0.0.1", "10.0.0.2", "10.0.0.9"

HOST_LISTS = {
    "local": [(LOCAL, 9200)],
    "local+r1": [(LOCAL, 9200), (R1, 9200)],
    "r1+r2": [(R1, 9200), (R2, 9200)],
    "r1x2": [(R1, 9200), (R1, 9201)],
    "localx2": [(LOCAL, 9200), (LOCAL, 9201)],
    "local+r1x2": [(LOCAL, 9200), (R1, 9200), (R1, 9201)],
    # the same host:port listed again after another host (two nodes on one host, not adjacent in the list)
    "local,r1,local": [(LOCAL, 9200), (R1, 9200), (LOCAL, 9200)],
    "r1,r2,r1": [(R1, 9200), (R2, 9200), (R1, 9200)],
}
# target hosts as users write them for an existing (externally provisioned) cluster: with scheme, credentials, names that only the cluster's network resolves
EXTERNAL_HOST_STRINGS = {
    "ext-https": "https://es1.cloud.example.org:9243,https://es2.cloud.example.org:9243",
    "ext-auth": "elastic:changeme@search.internal:9200",
    "ext-prefix": "http://gateway.internal:8080/es-prod",
}


class Calls:
    def __init__(self):
        self.log = []


class StubLauncher:
    def __init__(self, calls, group, fail):
        self.calls, self.group, self.fail = calls, group, fail

    def start(self, node_configs):
        if self.fail:
            self.calls.log.append(("start-failed", self.group))
            raise RuntimeError(f"injected launch failure on {self.group}")
        self.calls.log.append(("start", self.group, len(node_configs)))
        return [type("Node", (), {"node_name": f"n-{self.group[0]}-{self.group[1]}-{i}"})() for i in range(len(node_configs))]

    def stop(self, nodes, metrics_store):
        if self.group in _S.get("fail_stop", ()):
            self.calls.log.append(("stop-failed", self.group))
            raise RuntimeError(f"injected failure while stopping the nodes on {self.group}")
        self.calls.log.append(("stop", self.group, len(nodes)))


class StubProvisioner:
    def __init__(self, calls, group, idx):
        self.calls, self.group, self.idx = calls, group, idx

    def prepare(self, binaries):
        from esrally.mechanic import provisioner

        if (self.group, self.idx) in _S.get("fail_prepare", ()):
            self.calls.log.append(("prepare-failed", self.group, self.idx))
            raise RuntimeError(f"injected provisioning failure for node {self.idx} on {self.group}")
        self.calls.log.append(("prepare", self.group, self.idx))
        return provisioner.NodeConfiguration("tar", None, False, self.group[0], f"n{self.idx}", f"/x/{self.group}/{self.idx}", f"/x/{self.group}/{self.idx}/install", [f"/x/{self.group}/{self.idx}/data"])


def setup():
    if _S:
        return _S
    import logging

    logging.disable(logging.CRITICAL)
    from esrally import actor, config, log, metrics
    from esrally.mechanic import mechanic, provisioner
    from esrally.utils import console, net, opts

    log.post_configure_actor_logging = lambda: None
    console.init(quiet=True)
    net.resolve = lambda x: x
    mechanic.load_team = lambda cfg, external: (None, [])
    config.auto_load_local_config = lambda base, additional_sections=None, **kw: base

    def create(cfg, metrics_store, node_ip, node_http_port, all_node_ips, all_node_ids, sources=False, distribution=False, external=False, docker=False):
        calls = _S["calls"]
        group = (node_ip, node_http_port)
        node_ids = cfg.opts("provisioning", "node.ids", mandatory=False)
        calls.log.append(("create", group, tuple(node_ids)))
        provs = [StubProvisioner(calls, group, i) for i in node_ids]
        m = mechanic.Mechanic(cfg, WrappedStore(metrics_store, calls, group), lambda: calls.log.append(("supply", group)), provs, StubLauncher(calls, group, group in _S["fail_groups"]))
        return m

    class WrappedStore:
        def __init__(self, store, calls, group):
            self.store, self.calls, self.group = store, calls, group

        def flush(self, refresh=False):
            self.calls.log.append(("flush-final" if refresh else "flush-periodic", self.group))
            return self.store.flush(refresh=refresh)

        def close(self):
            self.calls.log.append(("store-close", self.group))
            return self.store.close()

        def __getattr__(self, name):
            return getattr(self.store, name)

    mechanic.create = create

    def cleanup(preserve, install_dir, data_paths):
        _S["calls"].log.append(("cleanup", install_dir, bool(preserve)))

    provisioner.cleanup = cleanup
    mechanic.provisioner.cleanup = cleanup
    _S.update(actor=actor, config=config, metrics=metrics, mechanic=mechanic, opts=opts)
    return _S


def make_cfg(hosts, preserve):
    s = setup()
    config, opts = s["config"], s["opts"]
    cfg = config.Config()
    A = config.Scope.application
    cfg.add(A, "system", "env.name", "verif")
    cfg.add(A, "system", "race.id", "verif-race")
    cfg.add(A, "system", "time.start", datetime.datetime(2026, 1, 1))
    cfg.add(A, "node", "root.dir", "/dev/shm/verif-c12-none")
    cfg.add(A, "mechanic", "repository.revision", "abc")
    cfg.add(A, "mechanic", "preserve.install", preserve)
    cfg.add(A, "mechanic", "car.names", ["defaults"])
    cfg.add(A, "mechanic", "car.params", {})
    cfg.add(A, "provisioning", "node.name.prefix", "rally-node")
    cfg.add(A, "reporting", "datastore.type", "in-memory")
    cfg.add(A, "track", "params", {})
    cfg.add(A, "client", "hosts", opts.TargetHosts(hosts if isinstance(hosts, str) else ",".join(f"{ip}:{port}" for ip, port in hosts)))
    return cfg


def groups_of(hosts):
    out = {}
    for i, hp in enumerate(hosts):
        out.setdefault(hp, []).append(i)
    return out


def canon(sim, env):
    acts = []
    for k, rec in sorted(sim.actors.items()):
        inst = rec.inst
        acts.append((
            rec.cls.__name__, k, rec.alive, str(getattr(inst, "status", None)), len(getattr(inst, "children", []) or []),
            sum(1 for c in (getattr(inst, "children", []) or []) if c is not None),
            len(getattr(inst, "received_responses", []) or []),
            len(getattr(inst, "pending", None) or []), tuple(sorted((str(ip), len(v)) for ip, v in (getattr(inst, "remotes", None) or {}).items())),
            getattr(inst, "mechanic", None) is not None,
        ))
    chans = tuple((ck, tuple(type(m).__name__ + (":" + str(getattr(m, "remoteAdded", ""))) for _s, m in q)) for ck, q in sorted(sim.channels.items()) if q)
    timers = tuple(sorted((t[2], str(getattr(t[3], "payload", None))) for t in sim.timers))
    per_group = {}
    for c in _S["calls"].log:
        if c[0] != "flush-periodic":
            per_group.setdefault(str(c[1])[:28], []).append((c[0],) + tuple(map(str, c[2:])))
    calls = tuple(sorted((g, tuple(v)) for g, v in per_group.items()))
    return h((acts, chans, timers, calls, tuple(sorted(env["joined"])), env["departed"], tuple(env["rc"]), sorted(sim.convention_listeners),
              sorted(sim.systems), sim.ever_registered))


def run_config(cfgspec, ch, res):
    hname, fault, extra_daemons, preserve, external = cfgspec
    s = setup()
    mech = s["mechanic"]
    hosts = HOST_LISTS[hname] if hname in HOST_LISTS else []
    groups = groups_of(hosts)
    _S["calls"] = Calls()
    _S["fail_groups"] = {fault[1]} if fault and fault[0] == "launch-fails" else set()
    _S["fail_stop"] = {fault[1]} if fault and fault[0] == "stop-fails" else set()
    # provisioning fails for the LAST node of a host that runs several nodes (the earlier ones are installed already)
    _S["fail_prepare"] = {(fault[1], groups_of(HOST_LISTS[hname])[fault[1]][-1])} if fault and fault[0] == "prepare-fails" else set()
    cfg = make_cfg(EXTERNAL_HOST_STRINGS.get(hname, hosts), preserve)
    CLOCK.start(now=0.0, sleep_mode="error")
    sim = actorsim.ActorSim(ch, horizon=10_000.0, max_steps=400)
    sim.untimed = True
    sim.strict_placement = True
    sim.ignore_timers = _S.get("ignore_timers", False)
    dep = {"waiting": None}

    def on_deliver(sm, rk, msg):
        if isinstance(msg, ta.ActorSystemConventionUpdate) and not msg.remoteAdded and rk in sm.actors:
            inst = sm.actors[rk].inst
            dep["waiting"] = bool(getattr(inst, "remotes", None)) or bool(getattr(inst, "pending", None))

    sim.on_deliver = on_deliver
    env = {"joined": set(), "departed": False, "rc": [], "stop_sent": False, "exit_sent": False}
    sim.state_fn = lambda sm: canon(sm, env)
    remote_ips = sorted({ip for ip, _p in hosts if ip != LOCAL})
    daemons = list(remote_ips) + (["other"] if extra_daemons == "other" else []) + (["noip"] if extra_daemons == "noip" else [])
    v = None
    try:
        try:
            maddr = sim.create_actor(mech.MechanicActor, parent=sim.external)
            for d in daemons:
                # a remote daemon (actor system) becomes a member of the convention: before or after the Dispatcher starts listening
                def enabled(sm, d=d):
                    return d not in env["joined"] and not env["departed"]

                def fire(sm, d=d):
                    env["joined"].add(d)
                    caps = {"ip": d} if d not in ("other", "noip") else ({"ip": OTHER} if d == "other" else {})
                    sm.system_joins(d, caps)

                sim.faults.append(actorsim.Fault(f"join-{d}", enabled, fire, mandatory=True))
            if fault and fault[0] == "daemon-departs":
                # A member daemon that the Dispatcher has been or is being told about is shut down before its nodes have been started
                # ("during start-up").  Semantics = ActorSim.system_leaves, as observed on the real multiprocTCPBase (DESIGN.md 10.8).
                lip = fault[1]

                def enabled_leave(sm):
                    started_there = any(c[0] in ("start", "start-failed") and c[1][0] == lip for c in _S["calls"].log)
                    return lip in sm.systems and sm.ever_registered and not env["departed"] and not started_there and "EngineStarted" not in env["rc"]

                def fire_leave(sm):
                    env["departed"] = True
                    sm.system_leaves(lip)

                sim.faults.append(actorsim.Fault("daemon-departs", enabled_leave, fire_leave))
            ctx = {"race-id": "verif-race", "race-timestamp": "20260101T000000Z", "track": "t", "challenge": "c", "car": "defaults"}
            sim.tell(maddr, mech.StartEngine(cfg, ctx, False, True, external, False))
            seen = [0]

            def pump():
                while seen[0] < len(sim.outbox):
                    _now, msg = sim.outbox[seen[0]]
                    seen[0] += 1
                    name = type(msg).__name__
                    env["rc"].append(name)
                    calls = [c for c in _S["calls"].log]
                    if name == "EngineStarted":
                        started = {c[1] for c in calls if c[0] == "start"}
                        if not external and started != set(groups):
                            return ("engine-started-early", f"EngineStarted although only {sorted(started)} of {sorted(groups)} have started their nodes")
                        nodes_started = sorted(i for c in calls if c[0] == "create" for i in c[2])
                        if not external and nodes_started != list(range(len(hosts))):
                            return ("engine-started-without-all-nodes", f"EngineStarted but node ids {nodes_started} were assigned to hosts, the host list has nodes {list(range(len(hosts)))}")
                        if env["rc"].count("EngineStarted") > 1:
                            return ("engine-started-twice", f"{env['rc']}")
                        if not env["stop_sent"]:
                            env["stop_sent"] = True
                            sim.tell(maddr, mech.StopEngine())
                    elif name == "EngineStopped":
                        stopped = {c[1] for c in calls if c[0] == "stop"}
                        started = {c[1] for c in calls if c[0] == "start"}
                        if stopped != started:
                            return ("engine-stopped-early", f"EngineStopped although {sorted(started - stopped)} were not stopped")
                    elif name in ("BenchmarkFailure", "PoisonMessage") and not env["exit_sent"]:
                        env["exit_sent"] = True
                        sim.phase = "shutdown"
                        sim.tell(maddr, ta.ActorExitRequest())
                return None

            def until(sm):
                nonlocal v
                if v is None:
                    v = pump()
                return v is not None

            status = sim.run(until=until)
            if v is None:
                v = pump()
        finally:
            sim.shutdown()
            CLOCK.stop()
    except explore.Pruned:
        raise
    calls = _S["calls"].log
    rc = env["rc"]
    # a departure only counts as a start-up fault if the Dispatcher was still waiting for daemons when it learnt about it
    faulty = bool(fault) and (fault[0] in ("launch-fails", "prepare-fails", "stop-fails") or env["departed"])
    gone_ip = fault[1] if fault and fault[0] == "daemon-departs" and env["departed"] else None
    late_departure = False
    if v is None and status == "step-limit":
        v = ("no-quiescence", f"step limit reached: {rc}")
    if v is None:
        # terminal (quiescent) state
        if sim.handler_errors and not any(True for e in sim.handler_errors if e[4] == "shutdown") and not faulty:
            v = ("handler-raises", f"{sim.handler_errors[0][:2]} {sim.handler_errors[0][2][-300:]}")
        elif external:
            if any(c[0] in ("create", "start", "stop", "prepare", "supply", "cleanup") for c in calls):
                v = ("external-cluster-touched", f"{calls}")
            elif rc[:2] != ["EngineStarted", "EngineStopped"]:
                v = ("external-protocol", f"{rc}")
        elif faulty:
            if "BenchmarkFailure" not in rc and "PoisonMessage" not in rc:
                v = ("failure-not-reported", f"fault {fault} but race control only saw {rc}; joined={sorted(env['joined'])} handler errors={[e[:2] for e in sim.handler_errors]}")
        else:
            if "EngineStarted" not in rc:
                v = ("start-hangs", f"no fault, all daemons joined={sorted(env['joined'])} of {daemons}, but race control saw {rc}; calls {calls[-6:]}")
            elif "EngineStopped" not in rc:
                v = ("stop-hangs", f"race control saw {rc}")
            elif "BenchmarkFailure" in rc and not late_departure:
                v = ("spurious-failure", f"{rc}: {[str(m.message)[:200] for _t, m in sim.outbox if type(m).__name__ == 'BenchmarkFailure']}")
        if v is None and not external:
            # every started node group: stop -> final flush -> store close -> cleanup (with the preserve flag), exactly once
            for g, ids in groups.items():
                started = [c for c in calls if c[0] == "start" and c[1] == g]
                if not started or g[0] == gone_ip or (fault and fault[0] == "stop-fails" and g == fault[1]):
                    continue
                seq = [c[0] for c in calls if len(c) > 1 and c[1] == g and c[0] in ("stop", "flush-final", "store-close")]
                if seq != ["stop", "flush-final", "store-close"]:
                    v = ("stop-sequence", f"node group {g}: {seq} (expected exactly one stop, final flush, store close); rc={rc}")
                    break
                cl = [c for c in calls if c[0] == "cleanup" and c[1].startswith(f"/x/{g}/")]
                if len(cl) != len(ids) or any(c[2] != bool(preserve) for c in cl):
                    v = ("cleanup", f"node group {g} with {len(ids)} nodes: cleanup calls {cl}, preserve={preserve}")
                    break
            if v is None and fault and fault[0] == "prepare-fails":
                # nodes that were installed before the failure must not be left behind on the host
                for c in calls:
                    if c[0] == "prepare" and c[1] == fault[1]:
                        cl = [x for x in calls if x[0] == "cleanup" and x[1] == f"/x/{c[1]}/{c[2]}/install"]
                        if len(cl) != 1 or cl[0][2] != bool(preserve):
                            v = ("installed-node-not-cleaned-up", f"node {c[2]} on {c[1]} was installed before provisioning of a later node failed; cleanup calls for it: {cl}; rc={rc}")
                            break
            if v is None and len([c for c in calls if c[0] == "start"]) != len({c[1] for c in calls if c[0] == "start"}):
                v = ("started-twice", f"{[c for c in calls if c[0] == 'start']}")
    res.case(
        case_repr={"hosts": hname, "fault": fault, "extra_daemons": extra_daemons, "preserve": preserve, "external": external,
                   "choices": list(ch.choices)[:50], "race_control_saw": rc, "stub_calls": [list(map(str, c)) for c in calls if c[0] != "flush-periodic"][:20]}
        if res.sample_now(997)
        else None,
        nontrivial_key=(cfgspec, tuple(ch.choices)) if len(groups) > 1 or fault else None,
        outcome_key=(hname, str(fault), tuple(rc), v[0] if v else "ok"),
    )
    if v:
        res.violation(
            f"engine:{v[0]}:{fault[0] if fault else 'no-fault'}" + (f":{extra_daemons}-daemon" if extra_daemons else ""),
            f"hosts={hname} fault={fault} extra_daemons={extra_daemons} preserve={preserve} external={external} choices={list(ch.choices)}: {v[1]}",
            {"cfg": [hname, list(fault) if fault else None, extra_daemons, preserve, external], "choices": list(ch.choices),
             "ignore_timers": bool(_S.get("ignore_timers", False))},
        )


def configs(tier):
    out = []
    for hname, hosts in HOST_LISTS.items():
        groups = list(groups_of(hosts))
        remotes = sorted({ip for ip, _ in hosts if ip != LOCAL})
        faults = [None] + [("launch-fails", g) for g in groups] + [("daemon-departs", r) for r in remotes[:1]]
        faults += [("prepare-fails", g) for g in groups if len(groups_of(hosts)[g]) > 1]
        # stopping fails on one host: the stop must not be acknowledged to race control as if every node had been stopped
        faults += [("stop-fails", g) for g in groups[:2]]
        for fault in faults:
            for extra in ([None, "other", "noip"] if remotes else [None]):
                if extra and fault and fault[0] == "launch-fails" and tier == "quick":
                    continue
                for preserve in (False, True):
                    if preserve and (fault or extra):
                        continue
                    out.append((hname, fault, extra, preserve, False))
    out.append(("local+r1", None, None, False, True))
    out.append(("local", None, None, False, True))
    for hname in EXTERNAL_HOST_STRINGS:
        out.append((hname, None, None, False, True))
    return out


# ------------------------------------------------------------------------------------------------ launcher layer

FATES = ["alive", "needs-kill", "already-dead", "dies-on-terminate", "dies-before-kill"]


def launcher_cases(tier):
    import itertools

    for n in (1, 2, 3):
        for fates in itertools.product(FATES, repeat=n):
            for store in (True, False):
                if n == 3 and not store and tier == "quick":
                    continue
                yield (fates, store)


def check_launcher(case, res):
    """what 'stops every started node exactly once (stop, store system metrics)' means on one host: the real ProcessLauncher.stop over
    every combination of per-node process fates (psutil replaced by a scripted stand-in)"""
    fates, with_store = case
    setup()
    import psutil

    from esrally import telemetry
    from esrally.mechanic import launcher

    log = []

    class Proc:
        def __init__(self, pid):
            self.pid = pid
            self.fate = fates[pid - 100]
            if self.fate == "already-dead":
                raise psutil.NoSuchProcess(pid)

        def terminate(self):
            log.append(("terminate", self.pid))
            if self.fate == "dies-on-terminate":
                raise psutil.NoSuchProcess(self.pid)

        def wait(self, timeout=None):
            if self.fate in ("needs-kill", "dies-before-kill"):
                raise psutil.TimeoutExpired(timeout, self.pid)

        def kill(self):
            log.append(("kill", self.pid))
            if self.fate == "dies-before-kill":
                raise psutil.NoSuchProcess(self.pid)

    class Tel:
        def __init__(self, i):
            self.i = i

        def detach_from_node(self, node, running):
            log.append(("detach", self.i, running))

        def store_system_metrics(self, node, metrics_store):
            log.append(("system-metrics", self.i))

    class Store:
        def add_meta_info(self, *a, **k):
            pass

    class Clock:
        @staticmethod
        def stop_watch():
            return type("SW", (), {"start": lambda self: None, "split_time": lambda self: 0.0})()

    nodes = [type("Node", (), {"node_name": f"n{i}", "host_name": "h", "pid": 100 + i, "telemetry": Tel(i)})() for i in range(len(fates))]
    real_process, real_meta = launcher.psutil.Process, telemetry.add_metadata_for_node
    v = None
    try:
        launcher.psutil.Process = lambda pid: Proc(pid)
        telemetry.add_metadata_for_node = lambda store, name, host: log.append(("meta", name))
        cfg = make_cfg(HOST_LISTS["local"], False)
        try:
            stopped = launcher.ProcessLauncher(cfg, clock=Clock).stop(nodes, Store() if with_store else None)
        except Exception as ex:  # noqa
            stopped = None
            v = ("launcher-stop-raises", f"{type(ex).__name__}: {ex}")
    finally:
        launcher.psutil.Process = real_process
        telemetry.add_metadata_for_node = real_meta
    if v is None:
        for i, fate in enumerate(fates):
            pid = 100 + i
            terms = log.count(("terminate", pid))
            kills = log.count(("kill", pid))
            sysm = log.count(("system-metrics", i))
            if terms != (0 if fate == "already-dead" else 1):
                v = ("node-terminated-count", f"node {i} ({fate}): terminate called {terms} times")
            elif kills != (1 if fate in ("needs-kill", "dies-before-kill") else 0):
                v = ("node-kill-count", f"node {i} ({fate}): kill called {kills} times")
            elif sysm != (1 if with_store else 0):
                v = ("system-metrics-stored-count", f"node {i} ({fate}): system metrics stored {sysm} times (metrics store {'present' if with_store else 'absent'})")
            elif with_store and fate != "already-dead" and log.index(("system-metrics", i)) < log.index(("terminate", pid)):
                v = ("system-metrics-before-stop", f"node {i} ({fate}): {log}")
            if v:
                break
        want_stopped = [f"n{i}" for i, f in enumerate(fates) if f in ("alive", "needs-kill")]
        if v is None and [n.node_name for n in stopped] != want_stopped:
            v = ("stopped-nodes", f"returned {[n.node_name for n in stopped]}, expected {want_stopped}")
    res.case(
        case_repr={"launcher_stop": list(fates), "metrics_store": with_store} if res.sample_now(41) else None,
        nontrivial_key=("launcher", fates, with_store) if len(fates) > 1 or fates[0] != "alive" else None,
        outcome_key=("launcher", len(fates), with_store, v[0] if v else "ok", len(log)),
    )
    if v:
        res.violation(f"launcher:{v[0]}", f"nodes on one host with process fates {list(fates)}, metrics store {'present' if with_store else 'absent'}: {v[1]}",
                      {"launcher": [list(fates), with_store]})


def _launcher_job(cases):
    res = Result()
    for c in cases:
        check_launcher(c, res)
    return res


def _job(arg):
    if arg[0] == "launcher":
        return _launcher_job(arg[1])
    cfgspec, ignore_timers = arg
    setup()
    _S["ignore_timers"] = ignore_timers
    res = Result()
    explore.explore_states(lambda ch, r: run_config(cfgspec, ch, r), res, max_states=60000)
    return res


def run(tier, seed):
    cfgs = configs(tier)
    # quick: the periodic metrics flush of node actors (a timer that re-arms itself and changes no state) is not fired
    lc = list(launcher_cases(tier))
    res = par.pmap(_job, [(c, tier == "quick") for c in cfgs] + [("launcher", ch) for ch in par.chunks(lc, 4)], seed=seed)
    res.extra["launcher_stop_cases"] = len(lc)
    res.extra["periodic_flush_timers_fired"] = tier != "quick"
    res.extra["configurations"] = len(cfgs)
    res.bound_completed = "all reachable states (no deviation bound)" if res.exhaustive else "capped"
    return res


def replay(data):
    res = Result()
    setup()
    if "launcher" in data:
        check_launcher((tuple(data["launcher"][0]), data["launcher"][1]), res)
        return [v for lst in res.violations.values() for v in lst]
    _S["ignore_timers"] = bool(data.get("ignore_timers", False))
    c = data["cfg"]
    fault = (c[1][0], tuple(c[1][1]) if isinstance(c[1][1], list) else c[1][1]) if c[1] else None
    run_config((c[0], fault, c[2], c[3], c[4]), explore.Chooser(tuple(data["choices"])), res)
    return [v for lst in res.violations.values() for v in lst]
