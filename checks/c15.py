"""C15 -- the branch used is the documented best match for the ES version.

Layer 1: every subset of a universe of branch names x a set of versions through the real
         versions.best_match, compared with the six documented steps (docs/track.rst).
Layer 2: a complete (smaller) product of branch sets x tag sets x versions on a real git repository
         through the real RallyRepository.update.
"""
import itertools
import os
import re
import shutil
import subprocess
import tempfile

from mc import par
from mc.core import Result

ID = "C15"
LEVEL = "exploration"
RULE = (
    "layer 1: every subset of the branch-name universe x every version of the version list through versions.best_match, plus every subset of a "
    "second universe with majors of different digit counts (2, 9, 10, 11, 100) x 12 versions; "
    "layer 2: every (branch subset, tag subset, version) of a smaller universe on a real local git repository through "
    "RallyRepository.update; layer 3: every non-empty subset of remote branch names (incl. namespaced names such as "
    "users/jdoe/8.3) x versions on an origin + clone pair. A case is non-trivial when at least one versioned branch of the version's major is present; "
    "layer 4 (histories, same reference): local repository reused for two runs (every subset of {master, 7, 7.17, 8} x every ordered pair of 4 versions, the second run also for an unknown version); "
    "managed clone reused while upstream changes its branch set between the runs (every pair of non-empty subsets of {master, 8, 8.5, 8.6} x versions). "
    "distinct = distinct (branch set, version)."
)
ASSUMPTIONS = [
    "branch names follow MAJOR[.MINOR[.PATCH[-SUFFIX]]] plus unrelated names; the universe is listed in coverage.universe",
    "remote repositories are a local origin + clone (fetch/checkout/rebase of an unchanged branch); no diverging histories",
    "reference = the six documented steps of docs/track.rst; where the statement is silent (version newer than every "
    "versioned branch but of the same major as the newest; 'master' chosen but no master branch) either answer is accepted",
]

UNIVERSE_Q = ["master", "5", "6", "7", "7.0", "7.2", "7.11", "7.3.0", "7.3.1", "7.3.1-beta1", "8.0", "8", "feature-x", "9.x"]
UNIVERSE_T = UNIVERSE_Q + ["6.8", "7.10", "8.0.0", "9"]
VERSIONS_Q = ["6.8.0", "7.0.0", "7.0.1", "7.1.0", "7.3.1", "7.3.1-beta1", "7.10.2", "7.12.1", "8.0.0", "8.1.0", "9.0.0", None, "serverless"]
VERSIONS_T = VERSIONS_Q + ["5.6.16", "7.3.0", "7.3.2-beta1", "8.0.0-SNAPSHOT", "10.0.0", ""]

# majors with different numbers of digits (numeric, not lexicographic order)
UNIVERSE_2D = ["master", "2", "9", "9.1", "10", "10.2", "11", "11.0", "100.1"]
VERSIONS_2D = ["1.0.0", "2.4.0", "9.0.0", "9.5.0", "10.0.0", "10.1.0", "10.3.0", "11.0.0", "12.0.0", "99.0.0", "100.0.0", "100.2.0"]

VPAT = re.compile(r"^(\d+)(?:\.(\d+))?(?:\.(\d+))?(?:-(.+))?$")


def comps(name):
    m = VPAT.match(name)
    if not m:
        return None
    return (int(m.group(1)), None if m.group(2) is None else int(m.group(2)), None if m.group(3) is None else int(m.group(3)), m.group(4))


def reference(branches, version):
    """returns (set of acceptable answers, step name)"""
    bset = set(branches)
    if version is None or version == "" or version == "serverless":
        return ({"master"} if "master" in bset else {"master", None}), "master"
    c = comps(version)
    major, minor, patch, suffix = c
    if suffix is not None and f"{major}.{minor}.{patch}-{suffix}" in bset:
        return {f"{major}.{minor}.{patch}-{suffix}"}, "exact-suffix"
    if f"{major}.{minor}.{patch}" in bset:
        return {f"{major}.{minor}.{patch}"}, "exact-patch"
    if f"{major}.{minor}" in bset:
        return {f"{major}.{minor}"}, "exact-minor"
    prior = [cb[1] for cb in map(comps, bset) if cb and cb[0] == major and cb[1] is not None and cb[2] is None and cb[3] is None and cb[1] <= minor]
    if prior:
        return {f"{major}.{max(prior)}"}, "prior-minor"
    if f"{major}" in bset:
        return {f"{major}"}, "major"
    versioned = [cb for cb in map(comps, bset) if cb]
    if all(major > cb[0] for cb in versioned):
        return ({"master"} if "master" in bset else {"master", None}), "master"
    # same-major-but-newer zone: statement only says master is allowed "only when newer than every versioned branch"
    newer_than_all = all((major, minor, patch) > (cb[0], cb[1] or 0, cb[2] or 0) for cb in versioned)
    if newer_than_all:
        return {None, "master"}, "none-or-master"
    return {None}, "none"


def classify(got, version):
    if got is None:
        return "none"
    if got == "master":
        return "master"
    cb = comps(got)
    if cb is None:
        return "foreign"
    cv = comps(version) if version and comps(version) else None
    if cv is None:
        return "versioned-for-unknown"
    if cb[0] != cv[0]:
        return "other-major"
    if cb[1] is not None and cb[1] > cv[1]:
        return "later-minor"
    if cb[1] is None:
        return "major"
    if cb[2] is None:
        return "exact-minor" if cb[1] == cv[1] else "prior-minor"
    return "exact-suffix" if cb[3] else "exact-patch"


def check_best_match(branches, version, res):
    from esrally.utils import versions

    try:
        got = versions.best_match(list(branches), version)
    except Exception as e:  # noqa
        got = f"<raised {type(e).__name__}>"
    accept, step = reference(branches, version)
    major_present = bool(version) and comps(version) and any(cb and cb[0] == comps(version)[0] for cb in map(comps, branches))
    res.case(
        case_repr={"branches": list(branches), "version": version, "got": got, "step": step} if res.sample_now(20011) else None,
        nontrivial_key=(tuple(branches), version) if major_present else None,
        outcome_key=(step, got if got in (None, "master") else classify(got, version)),
    )
    res.count("step:" + step)
    if got not in accept:
        extra = ""
        if step == "prior-minor" and any(a and a.endswith(".0") for a in accept):
            extra = ":zero-minor"
        sig = f"best_match:{step}{extra}->{classify(got, version) if not str(got).startswith('<') else 'exception'}"
        res.violation(
            sig,
            f"branches={sorted(branches)} version={version!r}: best_match returned {got!r}, documented choice is {sorted(map(str, accept))} ({step})",
            {"layer": 1, "branches": list(branches), "version": version},
        )
    if got is not None and got != "master" and got not in branches:
        res.violation("best_match:returns-unavailable-branch", f"{sorted(branches)} {version!r} -> {got!r}", {"layer": 1, "branches": list(branches), "version": version})


def _layer1_shard(arg):
    universe, versions_, lo, hi = arg
    res = Result()
    n = len(universe)
    for mask in range(lo, hi):
        branches = [universe[i] for i in range(n) if mask >> i & 1]
        for v in versions_:
            check_best_match(branches, v, res)
    return res


# ---------------------------------------------------------------- layer 2: real git repository

GIT_BRANCHES_Q = ["master", "7", "7.0", "7.2", "8"]
GIT_BRANCHES_T = ["master", "7", "7.0", "7.2", "7.3.1", "8", "6"]
GIT_TAGS_Q = [(), ("v7.1",), ("v7",), ("v7.1.0", "v7")]
GIT_TAGS_T = [(), ("v7.1",), ("v7",), ("v7.1.0", "v7"), ("v7.3.1",), ("v9",), ("v7.1.0-beta1", "v7.1")]
GIT_VERSIONS_Q = ["7.1.0", "7.3.1", "9.0.0"]
GIT_VERSIONS_T = ["7.1.0", "7.3.1", "9.0.0", "6.0.0", "7.1.0-beta1", None]


def _git(cwd, *args):
    return subprocess.run(["git", "-C", cwd] + list(args), check=True, capture_output=True, text=True).stdout.strip()


class GitSandbox:
    def __init__(self):
        self.root = tempfile.mkdtemp(prefix="verif-c15-")
        self.repo = os.path.join(self.root, "default")
        os.makedirs(self.repo)
        env = dict(os.environ, GIT_CONFIG_GLOBAL="/dev/null", GIT_CONFIG_SYSTEM="/dev/null")
        os.environ.update({"GIT_CONFIG_GLOBAL": "/dev/null", "GIT_CONFIG_SYSTEM": "/dev/null"})
        _git(self.repo, "init", "-q")
        _git(self.repo, "config", "user.email", "v@v")
        _git(self.repo, "config", "user.name", "v")
        _git(self.repo, "config", "advice.detachedHead", "false")
        with open(os.path.join(self.repo, "f"), "w") as f:
            f.write("a")
        _git(self.repo, "add", "f")
        _git(self.repo, "commit", "-q", "-m", "a")
        self.sha_a = _git(self.repo, "rev-parse", "HEAD")
        with open(os.path.join(self.repo, "f"), "w") as f:
            f.write("b")
        _git(self.repo, "commit", "-q", "-am", "b")
        self.sha_b = _git(self.repo, "rev-parse", "HEAD")
        # every branch gets a commit of its own, so that "the revision that was recorded" identifies the branch it was taken from
        self.shas = []
        for i in range(8):
            with open(os.path.join(self.repo, "f"), "w") as f:
                f.write(f"branch-commit-{i}")
            _git(self.repo, "commit", "-q", "-am", f"c{i}")
            self.shas.append(_git(self.repo, "rev-parse", "HEAD"))
        _git(self.repo, "checkout", "-q", "--detach", self.sha_a)
        del env

    def reset(self, branches, tags):
        g = os.path.join(self.repo, ".git")
        for d in ("refs/heads", "refs/tags"):
            p = os.path.join(g, d)
            shutil.rmtree(p, ignore_errors=True)
            os.makedirs(p)
        pk = os.path.join(g, "packed-refs")
        if os.path.exists(pk):
            os.remove(pk)
        self.branch_sha = {}
        for i, b in enumerate(branches):
            self.branch_sha[b] = self.shas[i % len(self.shas)]
            with open(os.path.join(g, "refs/heads", b), "w") as f:
                f.write(self.branch_sha[b] + "\n")
        for t in tags:
            with open(os.path.join(g, "refs/tags", t), "w") as f:
                f.write(self.sha_b + "\n")
        with open(os.path.join(g, "HEAD"), "w") as f:
            f.write(self.sha_a + "\n")
        _git(self.repo, "checkout", "-q", "-f", "--detach", self.sha_a)

    def close(self):
        shutil.rmtree(self.root, ignore_errors=True)


def check_git(sb, branches, tags, version, res, prior=None):
    from esrally import exceptions
    from esrally.utils import repo

    sb.reset(branches, tags)
    hist = ""
    if prior is not None:
        first = _observe(sb.repo, _update(sb.root, None, prior, True))
        hist = f" after a run for {prior!r} that left the repository at {first}"
    r = repo.RallyRepository(remote_url=None, root_dir=sb.root, repo_name="default", resource_name="tracks", offline=True)
    err = None
    try:
        r.update(version)
    except exceptions.RallyError as e:
        err = type(e).__name__
    except Exception as e:  # noqa
        err = "unexpected:" + type(e).__name__
    cur = _git(sb.repo, "rev-parse", "--abbrev-ref", "HEAD")
    head = _git(sb.repo, "rev-parse", "HEAD")
    accept, step = reference(branches, version)
    # expected observable
    exp = []
    for a in accept:
        if a is not None and a in branches:
            exp.append(("branch", a))
        else:
            # nothing qualifies (or master chosen but absent): v-tag of the most specific variant, else an error
            tag = None
            if version and comps(version):
                mj, mn, pt, sf = comps(version)
                variants = ([f"{mj}.{mn}.{pt}-{sf}"] if sf else []) + [f"{mj}.{mn}.{pt}", f"{mj}.{mn}", f"{mj}"]
                for v in variants:
                    if "v" + v in tags:
                        tag = "v" + v
                        break
            if a is None:
                exp.append(("tag", tag) if tag else ("error", None))
            else:  # 'master' selected although there is no such branch: an error must be reported
                exp.append(("error", None))
    if err:
        got = ("error", None)
    elif cur != "HEAD":
        got = ("branch", cur)
    elif head == sb.sha_b:
        got = ("tag", "*")
    else:
        got = ("unchanged", None)
    ok = any(g == got or (g[0] == "tag" and got[0] == "tag") for g in exp)
    if err and err.startswith("unexpected"):
        ok = False
    if ok and got[0] == "branch" and getattr(r, "revision", None) is not None and not sb.branch_sha[got[1]].startswith(str(r.revision)):
        # the revision published for the other components of the race must be the one of the branch that was checked out
        res.violation(
            "git:revision-not-of-the-checked-out-branch",
            f"git branches={list(branches)} version={version!r}: branch {got[1]} ({sb.branch_sha[got[1]][:10]}) checked out but revision {r.revision} recorded",
            {"layer": 2, "branches": list(branches), "tags": list(tags), "version": version},
        )
    res.case(
        case_repr={"git_branches": list(branches), "tags": list(tags), "version": version, "observed": list(got), "error": err}
        if res.sample_now(97)
        else None,
        nontrivial_key=("git", tuple(branches), tuple(tags), version, prior) if branches or tags else None,
        outcome_key=("git", got[0], step, prior is not None),
    )
    res.traces += 1
    if not ok:
        res.violation(
            f"git:{step}->{got[0]}" + (":history" if prior is not None else ""),
            f"git branches={list(branches)} tags={list(tags)} version={version!r}{hist}: observed {got} error={err}, expected one of {exp}",
            {"layer": 2, "branches": list(branches), "tags": list(tags), "version": version} if prior is None else
            {"layer": 4, "kind": "local", "branches": list(branches), "v1": prior, "v2": version},
        )


# ---------------------------------------------------------------- layer 3: repository with a remote (origin + clone)

REMOTE_BRANCHES_Q = ["master", "8", "8.0", "users/jdoe/8.3", "backport/9"]
REMOTE_BRANCHES_T = REMOTE_BRANCHES_Q + ["7", "feature/8.3.0"]
REMOTE_VERSIONS_Q = ["8.3.0", "9.1.0", "8.0.1", "7.17.0"]
REMOTE_VERSIONS_T = REMOTE_VERSIONS_Q + ["6.8.0", None]


class RemoteSandbox(GitSandbox):
    """self.repo is the origin; self.clone is what Rally manages"""

    def __init__(self):
        super().__init__()
        self.croot = os.path.join(self.root, "managed")
        os.makedirs(self.croot)
        self.clone = os.path.join(self.croot, "default")
        # origin needs at least one branch to clone from
        with open(os.path.join(self.repo, ".git", "refs/heads/seed"), "w") as f:
            f.write(self.sha_a + "\n")
        subprocess.run(["git", "clone", "-q", self.repo, self.clone], check=True, capture_output=True)
        _git(self.clone, "config", "user.email", "v@v")
        _git(self.clone, "config", "user.name", "v")
        _git(self.clone, "config", "advice.detachedHead", "false")

    def reset_remote(self, branches):
        self.reset(branches, [])
        g = os.path.join(self.clone, ".git")
        _git(self.clone, "checkout", "-q", "-f", "--detach", self.sha_a)
        for d in ("refs/heads", "refs/remotes/origin", "refs/tags"):
            shutil.rmtree(os.path.join(g, d), ignore_errors=True)
        os.makedirs(os.path.join(g, "refs/heads"), exist_ok=True)
        pk = os.path.join(g, "packed-refs")
        if os.path.exists(pk):
            os.remove(pk)

    def reset(self, branches, tags):
        g = os.path.join(self.repo, ".git")
        shutil.rmtree(os.path.join(g, "refs/heads"), ignore_errors=True)
        os.makedirs(os.path.join(g, "refs/heads"))
        pk = os.path.join(g, "packed-refs")
        if os.path.exists(pk):
            os.remove(pk)
        for b in branches:
            fn = os.path.join(g, "refs/heads", b)
            os.makedirs(os.path.dirname(fn), exist_ok=True)
            with open(fn, "w") as f:
                f.write(self.sha_a + "\n")


def check_remote(sb, branches, version, res, prior=None):
    from esrally import exceptions
    from esrally.utils import repo

    hist = ""
    if prior is None:
        sb.reset_remote(branches)
    else:
        sb.reset_remote(prior[0])
        first = _observe(sb.clone, _update(sb.croot, sb.repo, prior[1], False))
        sb.reset(branches, [])
        hist = f" after a run for {prior[1]!r} when upstream had {list(prior[0])} (clone left at {first})"
    err = None
    try:
        r = repo.RallyRepository(remote_url=sb.repo, root_dir=sb.croot, repo_name="default", resource_name="tracks", offline=False)
        r.update(version)
    except exceptions.RallyError as e:
        err = type(e).__name__
    except Exception as e:  # noqa
        err = "unexpected:" + type(e).__name__
    cur = _git(sb.clone, "rev-parse", "--abbrev-ref", "HEAD")
    accept, step = reference(branches, version)
    exp = [("branch", a) if (a is not None and a in branches) else ("error", None) for a in accept]
    got = ("error", None) if err else (("branch", cur) if cur != "HEAD" else ("unchanged", None))
    ok = got in exp and not (err or "").startswith("unexpected")
    res.case(
        case_repr={"remote_branches": list(branches), "version": version, "observed": list(got), "error": err} if res.sample_now(37) else None,
        nontrivial_key=("remote", tuple(branches), version, (tuple(prior[0]), prior[1]) if prior else None) if branches else None,
        outcome_key=("remote", got[0], step, prior is not None, bool(prior and set(prior[0]) - set(branches))),
    )
    res.traces += 1
    if not ok:
        res.violation(
            f"git-remote:{step}->{got[0]}" + (":history" if prior else ""),
            f"remote branches={list(branches)} version={version!r}{hist}: observed {got} error={err}, expected one of {exp}",
            {"layer": 3, "branches": list(branches), "version": version} if prior is None else
            {"layer": 4, "kind": "remote", "b1": list(prior[0]), "v1": prior[1], "b2": list(branches), "v2": version},
        )


# ---------------------------------------------------------------- layer 4: histories (the repository is reused from run to run)

HIST_LOCAL_BRANCHES = ["master", "7", "7.17", "8"]
HIST_LOCAL_VERSIONS = ["7.17.0", "7.3.0", "8.1.0", "9.0.0"]
HIST_REMOTE_BRANCHES = ["master", "8", "8.5", "8.6"]
HIST_REMOTE_VERSIONS = ["8.5.0", "8.7.0"]


def _update(root, remote_url, version, offline):
    from esrally import exceptions
    from esrally.utils import repo

    try:
        r = repo.RallyRepository(remote_url=remote_url, root_dir=root, repo_name="default", resource_name="tracks", offline=offline)
        r.update(version)
        return None
    except exceptions.RallyError as e:
        return type(e).__name__
    except Exception as e:  # noqa
        return "unexpected:" + type(e).__name__


def _observe(path, err):
    cur = _git(path, "rev-parse", "--abbrev-ref", "HEAD")
    return ("error", err) if err else (("branch", cur) if cur != "HEAD" else ("detached", _git(path, "rev-parse", "HEAD")[:10]))


def check_local_history(sb, branches, v1, v2, res):
    """the repository is reused: a run for v1 leaves it on some branch, then the run for v2 must still end on the documented best match"""
    check_git(sb, branches, [], v2, res, prior=v1)


def check_remote_history(sb, b1, v1, b2, v2, res):
    """upstream has branches b1 when Rally runs for v1, then b2 (branches added / deleted / renamed upstream) when it runs for v2: the managed
    clone must end on the documented best match among b2"""
    check_remote(sb, b2, v2, res, prior=(b1, v1))


def _history_cases(tier):
    out = []
    n = len(HIST_LOCAL_BRANCHES)
    for mask in range(1, 1 << n):
        br = [HIST_LOCAL_BRANCHES[i] for i in range(n) if mask >> i & 1]
        for v1 in HIST_LOCAL_VERSIONS:
            for v2 in HIST_LOCAL_VERSIONS + [None]:  # None: the second race runs an Elasticsearch of unknown version (e.g. built from sources)
                out.append(("local", br, v1, v2))
    n = len(HIST_REMOTE_BRANCHES)
    for m1 in range(1, 1 << n):
        b1 = [HIST_REMOTE_BRANCHES[i] for i in range(n) if m1 >> i & 1]
        for m2 in range(1, 1 << n):
            b2 = [HIST_REMOTE_BRANCHES[i] for i in range(n) if m2 >> i & 1]
            for v1 in HIST_REMOTE_VERSIONS if tier == "thorough" else HIST_REMOTE_VERSIONS[:1]:
                # (unknown version only while upstream still has master: without it the run falls under the recorded local-fallback finding)
                for v2 in HIST_REMOTE_VERSIONS + ([None] if "master" in b2 else []):
                    out.append(("remote", b1, v1, b2, v2))
    return out


def _layer4_shard(cases):
    res = Result()
    lsb = rsb = None
    try:
        for c in cases:
            if c[0] == "local":
                lsb = lsb or GitSandbox()
                check_local_history(lsb, c[1], c[2], c[3], res)
            else:
                rsb = rsb or RemoteSandbox()
                check_remote_history(rsb, c[1], c[2], c[3], c[4], res)
    finally:
        for sb in (lsb, rsb):
            if sb:
                sb.close()
    return res


def _layer3_shard(cases):
    res = Result()
    sb = RemoteSandbox()
    try:
        for branches, version in cases:
            check_remote(sb, branches, version, res)
    finally:
        sb.close()
    return res


def _remote_cases(tier):
    names = REMOTE_BRANCHES_Q if tier == "quick" else REMOTE_BRANCHES_T
    vers = REMOTE_VERSIONS_Q if tier == "quick" else REMOTE_VERSIONS_T
    out = []
    for mask in range(1, 1 << len(names)):
        br = [names[i] for i in range(len(names)) if mask >> i & 1]
        for v in vers:
            out.append((br, v))
    return out


def _layer2_shard(cases):
    res = Result()
    sb = GitSandbox()
    try:
        for branches, tags, version in cases:
            check_git(sb, branches, tags, version, res)
    finally:
        sb.close()
    return res


def _git_cases(tier):
    names = GIT_BRANCHES_Q if tier == "quick" else GIT_BRANCHES_T
    tagsets = GIT_TAGS_Q if tier == "quick" else GIT_TAGS_T
    vers = GIT_VERSIONS_Q if tier == "quick" else GIT_VERSIONS_T
    out = []
    for mask in range(1 << len(names)):
        br = [names[i] for i in range(len(names)) if mask >> i & 1]
        for t in tagsets:
            for v in vers:
                out.append((br, list(t), v))
    return out


def run(tier, seed):
    import logging

    logging.disable(logging.CRITICAL)
    universe = UNIVERSE_Q if tier == "quick" else UNIVERSE_T
    vers = VERSIONS_Q if tier == "quick" else VERSIONS_T
    total = 1 << len(universe)
    step = max(1, total // (par.NPROC * 4))
    shards = [(universe, vers, lo, min(total, lo + step)) for lo in range(0, total, step)]
    t2 = 1 << len(UNIVERSE_2D)
    shards += [(UNIVERSE_2D, VERSIONS_2D, lo, min(t2, lo + 64)) for lo in range(0, t2, 64)]
    res = par.pmap(_layer1_shard, shards, seed=seed)
    res.extra["layer1_cases"] = res.evaluations
    res.extra["universe_two_digit_majors"] = UNIVERSE_2D
    gc = _git_cases(tier)
    r2 = par.pmap(_layer2_shard, par.chunks(gc, par.NPROC), seed=seed)
    res.extra["layer2_git_cases"] = r2.evaluations
    res.merge(r2)
    r3 = par.pmap(_layer3_shard, par.chunks(_remote_cases(tier), par.NPROC), seed=seed)
    res.extra["layer3_remote_git_cases"] = r3.evaluations
    res.merge(r3)
    hc = _history_cases(tier)
    # interleave local and remote cases over the shards
    r4 = par.pmap(_layer4_shard, [hc[i :: par.NPROC] for i in range(par.NPROC)], seed=seed)
    res.extra["layer4_history_cases"] = r4.evaluations
    res.merge(r4)
    res.extra["universe"] = universe
    res.extra["versions"] = [str(v) for v in vers]
    res.states = res.evaluations
    res.transitions = res.evaluations
    return res


def replay(data):
    import logging

    logging.disable(logging.CRITICAL)
    res = Result()
    if data["layer"] == 1:
        check_best_match(data["branches"], data["version"], res)
    elif data["layer"] == 4:
        sb = GitSandbox() if data["kind"] == "local" else RemoteSandbox()
        try:
            if data["kind"] == "local":
                check_local_history(sb, data["branches"], data["v1"], data["v2"], res)
            else:
                check_remote_history(sb, data["b1"], data["v1"], data["b2"], data["v2"], res)
        finally:
            sb.close()
    elif data["layer"] == 3:
        sb = RemoteSandbox()
        try:
            check_remote(sb, data["branches"], data["version"], res)
        finally:
            sb.close()
    else:
        sb = GitSandbox()
        try:
            check_git(sb, data["branches"], data["tags"], data["version"], res)
        finally:
            sb.close()
    return [v for lst in res.violations.values() for v in lst]
