"""C09 -- any failure or cancellation ends the race as failed, never as success.

Simulated races with one injected fault each (fault kind x injection point), explored within the deviation bound.  Race
control is the environment doing exactly what BenchmarkActor's handlers do, around the *real* BenchmarkCoordinator (real race
object, in-memory metrics store, real FileRaceStore, recorded summary reporter).
"""
import json
import os

from mc import actorsim, explore, loadgen, par, racesim
from mc.core import Result
from mc.vclock import CLOCK

ID = "C09"
LEVEL = "model_checking"
RULE = (
    "configurations S1 (1 host x 2 cores), S2 (2 hosts x 1 core), S5b (1x1, several rows per step), S3 (completed-by with an endless "
    "sibling on the other worker, 1x2) x faults: API error / unsuccessful result "
    "under on-error=abort, connection error under on-error=continue, parameter source raises, runner raises (each at the first, a middle and "
    "the last request of a step), driver metrics store raises on the n-th write (periodic tick and step boundaries), a track-preparation task "
    "raises, a worker process dies (at every scheduling point), user cancellation (at every scheduling point); a second set of fault specs "
    "(@rc) runs the REAL racecontrol.BenchmarkActor with its coordinator, the real MechanicActor of an externally provisioned cluster and the "
    "real DriverActor created by it, the environment being racecontrol.race() (ask Setup, first answer = outcome, tell exit), plus failures of "
    "race control's own metrics store at the n-th hand-over; +prof specs: driver profiling enabled with several clients per worker (S5b, S1 on one core); schedules: all within the "
    "deviation bound (the environment faults consume the deviation). non-trivial = every execution (each has a fault); distinct = (config, fault, choices)"
)
ASSUMPTIONS = [
    "+prof specs (driver profiling enabled): yappi is replaced by a stand-in with the interface AsyncProfiler uses; the AsyncProfiler wrapper itself is the real one",
    "race control = environment replaying BenchmarkActor's handlers around the real BenchmarkCoordinator, or (@rc specs) the real BenchmarkActor "
    "itself with racecontrol.race() as the environment; summary reporter replaced by a recorder",
    "a user cancellation takes effect when the benchmark actor handles BenchmarkCancelled; a worker that dies or a cancellation that takes "
    "effect after the benchmark actor has handled BenchmarkComplete (results already stored) is not a fault during the race",
    "bounded time = failure reaches race control within 40 virtual seconds of the fault (8 worker wake-up intervals) on every explored schedule",
]

HORIZON = 200.0
LAST_ELEMENT = {"SO": ("c", 1), "S1": ("b", 2), "S1p": ("b", 2), "S2": ("c", 2), "S5b": ("d", 2), "S3": ("c", 4), "SL": ("b", 1)}


def last_element_done(sname, log, ft):
    key, n = LAST_ELEMENT[sname]
    mine = [e for e in log if e["target"].startswith(f"/verif/{key}/")]
    return len(mine) == n and all(e["t_end"] is not None and e["t_end"] <= ft + 1e-9 for e in mine)
BOUND_AFTER_FAULT = 40.0
_P = {}


def T(key, clients=1, it=None, **op):
    return loadgen.make_task(key, key, clients=clients, iterations=it, op_params=op or None)


def P(tasks, clients=None):
    from esrally.track import track

    return track.Parallel(tasks, clients=clients)


def shape(name, op_for):
    """op_for(task key) -> extra op params (fault parameters)"""
    if name == "S1p":
        # S1 with both clients on one worker
        return [T("a", 2, it=3, **op_for("a")), T("b", 1, it=2, **op_for("b"))], (["localhost"], 1)
    if name == "S1":
        return [T("a", 2, it=3, **op_for("a")), T("b", 1, it=2, **op_for("b"))], (["localhost"], 2)
    if name == "S3":
        # completed-by: the fault hits the (endless) sibling task b while the other worker finishes the named task a
        a = loadgen.make_task("a", "a", clients=1, iterations=3, completes_parent=True, op_params=op_for("a") or None)
        b = loadgen.make_task("b", "b", clients=1, time_period=100_000, warmup_time_period=0, op_params=op_for("b") or None)
        return [P([a, b]), T("c", 2, it=2, **op_for("c"))], (["localhost"], 2)
    if name == "SO":
        # two tasks of one parallel element share ONE operation; the first tolerates non-fatal request errors, the second does not
        from esrally.track import track

        e = loadgen.setup()
        p = {"task-key": "s"}
        p.update(op_for("s"))
        op = track.Operation("shared-op", loadgen.OP_TYPE, params=p, param_source=loadgen.SOURCE)
        lenient = track.Task("lenient", op, clients=1, iterations=3, params={"ignore-response-error-level": "non-fatal"})
        strict = track.Task("strict", op, clients=1, iterations=3)
        return [P([lenient, strict]), T("c", 1, it=1, **op_for("c"))], (["localhost"], 1)
    if name == "SL":
        return [T("a", 1, it=5, **op_for("a")), T("b", 1, it=1, **op_for("b"))], (["localhost"], 1)
    if name == "S2":
        return [P([T("a", 1, it=2, **op_for("a")), T("b", 1, it=3, **op_for("b"))]), T("c", 2, it=1, **op_for("c"))], (["localhost", "h2"], 1)
    return [P([T("a", 1, it=2, **op_for("a")), T("b", 1, it=2, **op_for("b")), T("c", 1, it=1, **op_for("c"))], clients=2), T("d", 2, it=1, **op_for("d"))], (["localhost"], 1)


LAST = {"SO": ("s", 0, 2), "S1": ("b", 0, 1), "S1p": ("b", 0, 1), "S2": ("c", 1, 0), "S5b": ("d", 1, 0), "S3": ("c", 1, 1), "SL": ("b", 0, 0)}
MID = {"SO": ("s", 0, 1), "S1": ("a", 1, 1), "S1p": ("a", 1, 1), "S2": ("b", 0, 1), "S5b": ("c", 0, 0), "S3": ("b", 0, 1), "SL": ("a", 0, 2)}
FIRST = {"SO": ("s", 0, 0), "S1": ("a", 0, 0), "S1p": ("a", 0, 0), "S2": ("a", 0, 0), "S5b": ("a", 0, 0), "S3": ("b", 0, 0), "SL": ("a", 0, 0)}


def fault_specs(tier):
    out = []
    for s in ("S1", "S2", "S5b", "S3"):
        for where, tab in (("first", FIRST), ("mid", MID), ("last", LAST)):
            out.append((s, "api-abort", where))
            out.append((s, "connection-error", where))
            out.append((s, "runner-raises", where))
            if where != "mid" or tier == "thorough":
                out.append((s, "unsuccessful-abort", where))
                out.append((s, "source-raises", where))
        for n in (0, 3, 7, 11) if tier == "quick" else range(0, 24, 2):
            out.append((s, "store-raises", n))
        if s != "S3":
            out.append((s, "store-raises", "final"))
        out.append((s, "prep-task-fails", 0))
        # a track plugin calls sys.exit() while the preparation tasks are collected (SystemExit is not an Exception)
        out.append((s, "prep-exits", 0))
        # the driver's metrics store fails when it is closed after the last step (it only persists on close)
        out.append((s, "store-close-raises", 0))
        # the metrics store goes down for good: the n-th write fails and so does every later write and the close (which persists)
        for n in (0, 7):
            out.append((s, "store-breaks", n))
        out.append((s, "worker-dies", 0))
        out.append((s, "cancel", 0))
    # the driver's metrics store fails during the *periodic* post-processing (the load generators keep running), and the user cancels:
    # race control tears the actor system down only after a while, so a BenchmarkComplete may still arrive after the notification
    # the same with the REAL race control actor (and the real mechanic actor of an externally provisioned cluster) on top of the driver
    for s in ("S1", "S5b"):
        for kind in ("api-abort", "unsuccessful-abort", "connection-error", "source-raises", "runner-raises"):
            for where in ("first", "mid", "last") if (tier == "thorough" or s == "S1") else ("mid",):
                out.append((s, kind + "@rc", where))
        for n in (0, 7, "final"):
            out.append((s, "store-raises@rc", n))
        out.append((s, "prep-task-fails@rc", 0))
        out.append((s, "prep-exits@rc", 0))
        out.append((s, "store-close-raises@rc", 0))
        out.append((s, "worker-dies@rc", 0))
        out.append((s, "cancel@rc", 0))
    for n in range(0, 4):
        out.append(("S1", "rc-store-raises@rc", n))
    # driver profiling on, several clients per worker: the fault hits one client while its neighbours are still running
    for s in ("S5b", "S1p"):
        for kind in ("api-abort", "connection-error", "source-raises", "runner-raises"):
            for where in ("first", "mid", "last") if tier == "thorough" else ("first", "mid"):
                out.append((s, kind + "+prof", where))
    out.append(("S3", "api-abort@rc", "mid"))
    # on-error=abort with a task that tolerates non-fatal errors next to one that does not (same operation, same worker)
    for where in ("first", "mid", "last"):
        out.append(("SO", "unsuccessful-abort", where))
    out.append(("SL", "store-raises-late-teardown@rc", 2))
    out.append(("S1", "cancel-late-teardown@rc", 0))
    for n in (0, 2, 5):
        out.append(("SL", "store-raises-late-teardown", n))
    out.append(("SL", "store-raises", 0))
    out.append(("SL", "store-raises", 4))
    out.append(("SL", "cancel-late-teardown", 0))
    out.append(("S1", "cancel-late-teardown", 0))
    return out


class RealRaceControl(racesim.RaceControl):
    """what BenchmarkActor does, with the real BenchmarkCoordinator"""

    def __init__(self, sim, cfg, track, driver_addr, mstore):
        super().__init__(sim, cfg, track, driver_addr, None)
        s = racesim.setup()
        from esrally import racecontrol, reporter

        self.summaries = []
        reporter.summarize = lambda results, cfg_: self.summaries.append(results)
        racecontrol.reporter.summarize = reporter.summarize
        cfg.add(s["config"].Scope.application, "race", "pipeline", "benchmark-only")
        cfg.add(s["config"].Scope.application, "mechanic", "car.params", {})
        cfg.add(s["config"].Scope.application, "mechanic", "plugin.params", {})
        shutil_rm(os.path.join(racesim.scratch_dir(), "races"))
        co = racecontrol.BenchmarkCoordinator(cfg)
        co.current_track = track
        co.current_challenge = track.find_challenge_or_default("c")
        co.race = s["metrics"].create_race(cfg, track, co.current_challenge, None)
        co.metrics_store = s["metrics"].metrics_store(cfg, track=co.race.track_name, challenge=co.race.challenge_name, read_only=False)
        co.race_store = s["metrics"].race_store(cfg)
        self.co = co
        self.first_terminal = None
        self.exit_sent = False
        self.fault_time = None
        self.late_teardown = False
        self.complete_after_terminal = False

    def on_message(self, now, msg):
        import thespian.actors as ta

        d = racesim.setup()["driver"]
        name = type(msg).__name__
        self.received.append((now, name, msg))
        if self.exit_sent:
            return
        if isinstance(msg, d.PreparationComplete) and self.phase == "preparing":
            self.co.on_preparation_complete(msg.distribution_flavor, msg.distribution_version, msg.revision)
            self.phase = "running"
            self.sim.tell(self.driver_addr, d.StartBenchmark())
        elif isinstance(msg, d.TaskFinished):
            self.co.on_task_finished(msg.metrics)
        elif isinstance(msg, d.BenchmarkComplete):
            if self.first_terminal is not None:
                self.complete_after_terminal = True
            self.co.on_benchmark_complete(msg.metrics)
            self.sim.tell(self.driver_addr, ta.ActorExitRequest())
            self.exit_sent = True
            if self.first_terminal is None:
                self.first_terminal = ("complete", now)
                self.phase = "complete"
        elif name == "BenchmarkFailure" or name == "PoisonMessage":
            self.co.error = True
            if self.first_terminal is None:
                self.first_terminal = ("failed", now)
            self.phase = "failed"
        elif name == "BenchmarkCancelled":
            self.co.cancelled = True
            if self.first_terminal is None:
                self.first_terminal = ("cancelled", now)
            self.phase = "cancelled"

    def user_cancels(self):
        """KeyboardInterrupt in race(): BenchmarkCancelled is asked of the benchmark actor, then the actor system is told to exit"""
        import thespian.actors as ta

        self.co.cancelled = True
        self.first_terminal = self.first_terminal or ("cancelled", CLOCK.now)
        self.phase = "cancelled"
        if not self.late_teardown:
            self.sim.tell(self.driver_addr, ta.ActorExitRequest())
            self.exit_sent = True


class ActorRaceControl:
    """the REAL racecontrol.BenchmarkActor (with its real BenchmarkCoordinator, the real MechanicActor for an externally provisioned
    cluster and the real DriverActor below it) runs in the simulation; this object is only what racecontrol.race() is: it asks Setup,
    takes the first answer as the outcome of the race and then tells the benchmark actor to exit"""

    def __init__(self, sim, cfg, track):
        s = racesim.setup()
        from esrally import racecontrol, reporter
        from esrally.mechanic import mechanic

        self.sim, self.cfg, self.track = sim, cfg, track
        self.summaries = []
        reporter.summarize = lambda results, cfg_: self.summaries.append(results)
        racecontrol.reporter.summarize = reporter.summarize
        racecontrol.track.load_track = lambda cfg_, install_dependencies=False: track
        mechanic.load_team = lambda cfg_, external: (None, [])
        A = s["config"].Scope.application
        cfg.add(A, "race", "pipeline", "benchmark-only")
        cfg.add(A, "mechanic", "car.params", {})
        cfg.add(A, "mechanic", "plugin.params", {})
        cfg.add(A, "mechanic", "car.names", ["external"])
        cfg.add(A, "mechanic", "distribution.version", "8.6.1")
        cfg.add(A, "mechanic", "distribution.flavor", "default")
        cfg.add(A, "mechanic", "repository.revision", "abc")
        cfg.add(A, "track", "challenge.name", "c")
        shutil_rm(os.path.join(racesim.scratch_dir(), "races"))
        self.addr = sim.create_actor(racecontrol.BenchmarkActor, parent=sim.external)
        self.received = []
        self.phase = "init"
        self.first_terminal = None
        self.exit_sent = False
        self.late_teardown = False
        self.complete_after_terminal = False
        self._racecontrol = racecontrol
        self.delivered = []  # (message type, position in the trace, time) of everything the benchmark actor handles
        sim.on_deliver = self._on_deliver

    def _on_deliver(self, sim, receiver_key, msg):
        from mc.actorsim import key

        if receiver_key == key(self.addr):
            self.delivered.append((type(msg).__name__, len(sim.trace), CLOCK.now))

    def handled(self, name):
        """trace position at which the benchmark actor handled its first message of that type (None: never)"""
        for n, pos, _t in self.delivered:
            if n == name:
                return pos
        return None

    @property
    def co(self):
        from mc.actorsim import key

        return self.sim.actors[key(self.addr)].inst.coordinator

    def start(self):
        self.sim.tell(self.addr, self._racecontrol.Setup(self.cfg, False, False, True, False))
        self.phase = "running"

    def on_message(self, now, msg):
        import thespian.actors as ta

        name = type(msg).__name__
        self.received.append((now, name, msg))
        if self.first_terminal is None and name in ("Success", "BenchmarkFailure", "BenchmarkCancelled", "PoisonMessage"):
            kind = {"Success": "complete", "BenchmarkCancelled": "cancelled"}.get(name, "failed")
            self.first_terminal = (kind, now)
            self.phase = kind
            if not self.late_teardown and not self.exit_sent:
                # racecontrol.race(): finally -> tell the benchmark actor to exit
                self.sim.tell(self.addr, ta.ActorExitRequest())
                self.exit_sent = True

    def user_cancels(self):
        """KeyboardInterrupt in race(): BenchmarkCancelled is *asked* of the benchmark actor (the answer is awaited), then it is told to exit"""
        self.sim.tell(self.addr, racesim.setup()["actor"].BenchmarkCancelled())


def shutil_rm(p):
    import shutil

    shutil.rmtree(p, ignore_errors=True)


class FailingProcessor:
    def on_after_load_track(self, track):
        return track

    def on_prepare_track(self, track, data_root_dir):
        def boom():
            raise RuntimeError("injected track preparation failure")

        def fine():
            return None

        return [(fine, {}), (boom, {})]


class ExitingProcessor:
    def on_after_load_track(self, track):
        return track

    def on_prepare_track(self, track, data_root_dir):
        raise SystemExit(3)


class _YappiStandIn:
    """what esrally.driver.driver.AsyncProfiler uses of yappi"""

    def __init__(self):
        self.running = 0

    def start(self, *a, **k):
        self.running += 1

    def stop(self):
        self.running = 0

    def get_func_stats(self, *a, **k):
        class Stats:
            def print_all(self, out=None, columns=None):
                if out is not None:
                    out.write("name ncall tsub ttot tavg\n")

        return Stats()

    def clear_stats(self):
        pass

    def is_running(self):
        return self.running > 0


def check_race(spec, ch, res):
    sname, kind, where = spec[:3]
    lp = len(spec) > 3 and bool(spec[3])  # line-level preemption of worker handlers by the executor thread
    real = kind.endswith("@rc")  # the real BenchmarkActor / MechanicActor(external) on top of the driver instead of their emulation
    kind = kind.replace("@rc", "")
    prof = kind.endswith("+prof")  # --enable-driver-profiling: every client's executor runs inside the AsyncProfiler wrapper
    kind = kind.replace("+prof", "")
    late = kind.endswith("-late-teardown")
    kind = kind.replace("-late-teardown", "")
    s = racesim.setup()
    on_error = "abort" if kind in ("api-abort", "unsuccessful-abort") else "continue"
    target = {"first": FIRST, "mid": MID, "last": LAST}.get(where, FIRST)[sname] if isinstance(where, str) else None
    state = {"fault_time": None, "store_calls": 0}

    def op_for(key):
        if target is None or key != target[0]:
            return {}
        if kind == "unsuccessful-abort":
            return {"unsuccessful-at": [target[2]]}
        if kind == "source-raises":
            return {"source-fails-at": target[2]}
        if kind == "runner-raises":
            return {"runner-fails-at": target[2]}
        return {}

    schedule, (hosts, cores) = shape(sname, op_for)

    def behaviour(entry):
        import elastic_transport

        out = {"service_time": 8.0 if sname == "SL" and "/verif/a/" in entry["target"] else 0.5, "body": {}}
        if target is not None and kind in ("api-abort", "connection-error"):
            _, _, tkey, ci, k, _w = entry["target"].split("/")
            if tkey == target[0] and int(ci) == target[1] and int(k) == target[2]:
                state["fault_time"] = CLOCK.now
                if kind == "api-abort":
                    out.update(status=500, body={"error": {"type": "boom", "reason": "injected"}, "status": 500})
                else:
                    out["raise_"] = elastic_transport.ConnectionError("injected connection refused")
        return out

    faults = []
    rc_holder = {}
    if kind == "worker-dies":

        def enabled(sim):
            return rc_holder.get("rc") is not None and rc_holder["rc"].phase == "running" and any(r.cls.__name__ == "Worker" and r.alive for r in sim.actors.values())

        def fire(sim):
            w = [k for k, r in sim.actors.items() if r.cls.__name__ == "Worker" and r.alive][0]
            state["fault_time"] = CLOCK.now
            state["fault_pos"] = len(sim.trace)
            sim.kill_actor(w)

        faults.append(actorsim.Fault("worker-dies", enabled, fire))
    elif kind == "cancel":

        def enabled(sim):
            return rc_holder.get("rc") is not None and rc_holder["rc"].phase in ("preparing", "running")

        def fire(sim):
            state["fault_time"] = CLOCK.now
            rc_holder["rc"].user_cancels()

        faults.append(actorsim.Fault("user-cancels", enabled, fire))

    def rc_factory(sim, cfg, trk, daddr, mstore):
        rc = RealRaceControl(sim, cfg, trk, daddr, mstore)
        rc.late_teardown = late
        rc_holder["rc"] = rc
        return rc

    total_requests = sum(t.clients * t.iterations for el in schedule for t in el if t.iterations)
    def top_factory(sim, cfg, trk):
        rc = ActorRaceControl(sim, cfg, trk)
        rc.late_teardown = late
        rc_holder["rc"] = rc
        return rc

    # metrics store of the driver fails on its n-th write
    m = s["metrics"]
    orig_put = m.InMemoryMetricsStore.put_value_cluster_level
    orig_bulk_add = m.InMemoryMetricsStore.bulk_add
    if kind == "rc-store-raises":
        # the metrics store of race control fails when it takes over the metrics of a step (n-th TaskFinished / BenchmarkComplete)
        def failing_bulk_add(self, *a, **k):
            sim = s.get("sim")
            if sim is not None and sim.current_actor is not None and sim.actors[sim.current_actor].cls.__name__ == "BenchmarkActor":
                state["store_calls"] += 1
                if state["store_calls"] == where + 1:
                    state["fault_time"] = CLOCK.now
                    raise RuntimeError("injected race control metrics store failure")
            return orig_bulk_add(self, *a, **k)

        m.InMemoryMetricsStore.bulk_add = failing_bulk_add
    if kind == "store-raises":

        def failing_put(self, *a, **k):
            sim = s.get("sim")
            if sim is not None and sim.current_actor is not None and sim.actors[sim.current_actor].cls.__name__ == "DriverActor":
                state["store_calls"] += 1
                if where == "final":
                    # the first write after every request of the schedule has been answered: the post-processing at the last join point
                    from mc import fakees

                    done = [e for e in fakees.CLUSTER.log if e.get("t_end") is not None and e["t_end"] <= CLOCK.now + 1e-9]
                    hit = state["fault_time"] is None and len(done) >= total_requests
                else:
                    hit = state["store_calls"] == where + 1
                if hit:
                    state["fault_time"] = CLOCK.now
                    raise RuntimeError("injected metrics store failure")
            return orig_put(self, *a, **k)

        m.InMemoryMetricsStore.put_value_cluster_level = failing_put
    hook = (lambda register: register(FailingProcessor())) if kind == "prep-task-fails" else ((lambda register: register(ExitingProcessor())) if kind == "prep-exits" else None)
    had_close = "close" in m.InMemoryMetricsStore.__dict__
    orig_close = m.InMemoryMetricsStore.close
    if kind == "store-close-raises":

        def failing_close(self, *a, **k):
            sim = s.get("sim")
            if sim is not None and sim.current_actor is not None and sim.actors[sim.current_actor].cls.__name__ == "DriverActor" and state["fault_time"] is None:
                state["fault_time"] = CLOCK.now
                raise RuntimeError("injected metrics store failure on close")
            return orig_close(self, *a, **k)

        m.InMemoryMetricsStore.close = failing_close
    if kind == "store-breaks":

        def in_driver():
            sim = s.get("sim")
            return sim is not None and sim.current_actor is not None and sim.actors[sim.current_actor].cls.__name__ == "DriverActor"

        def breaking_put(self, *a, **k):
            if in_driver():
                state["store_calls"] += 1
                if state["store_calls"] >= where + 1:
                    if state["fault_time"] is None:
                        state["fault_time"] = CLOCK.now
                    raise RuntimeError("injected metrics store failure (store is down)")
            return orig_put(self, *a, **k)

        def breaking_close(self, *a, **k):
            if in_driver() and state["fault_time"] is not None:
                raise RuntimeError("injected metrics store failure on close (store is down)")
            return orig_close(self, *a, **k)

        m.InMemoryMetricsStore.put_value_cluster_level = breaking_put
        m.InMemoryMetricsStore.close = breaking_close
    del loadgen.FIRED[:]
    import sys

    real_yappi = sys.modules.get("yappi")
    if prof:
        # the profiler itself (third-party, process-global, slow) is environment: a stand-in with the interface AsyncProfiler uses
        sys.modules["yappi"] = _YappiStandIn()
    try:
        r = racesim.run_race(schedule, hosts, cores, behaviour, ch, horizon=HORIZON, on_error=on_error, faults=faults,
                             rc_factory=None if real else rc_factory, top_factory=top_factory if real else None, track_plugin_hook=hook,
                             linger=90.0 if late else 0.0, line_preempt=lp, cfg_extra={("driver", "profiling"): True} if prof else None)
    finally:
        m.InMemoryMetricsStore.put_value_cluster_level = orig_put
        m.InMemoryMetricsStore.bulk_add = orig_bulk_add
        if kind in ("store-close-raises", "store-breaks"):
            if had_close:
                m.InMemoryMetricsStore.close = orig_close
            else:
                del m.InMemoryMetricsStore.close
        if prof:
            if real_yappi is not None:
                sys.modules["yappi"] = real_yappi
            else:
                sys.modules.pop("yappi", None)
    rc = r.rc
    names = [n for _t, n, _m in r.received]
    v = None
    ft = state["fault_time"]
    if kind in ("prep-task-fails", "prep-exits") and ft is None:
        ft = 0.0
    fired = [f for f in loadgen.FIRED if f[0] == {"unsuccessful-abort": "unsuccessful"}.get(kind, kind)]
    if kind in ("runner-raises", "unsuccessful-abort", "source-raises") and ft is None and fired:
        # the fault fired inside the parameter source / runner (recorded by the harness at the moment it was raised)
        ft = fired[0][2]
    if kind in ("runner-raises", "unsuccessful-abort", "source-raises") and ft is None and rc.phase != "complete":
        # the fault is raised inside the parameter source / runner: take the last response of the target task (or the start of its
        # element) as the fault time
        mine = [e for e in r.log if e["target"].startswith(f"/verif/{target[0]}/")]
        if mine:
            ft = max(e["t_end"] for e in mine)
        elif r.log:
            ft = max(e["t_end"] for e in r.log)
        else:
            ft = 0.0
    late_cancel = False
    if real and ft is not None and kind == "worker-dies" and last_element_done(sname, r.log, ft):
        # the process died after it had done all of its work (every request of the last element answered): not a fault during the race,
        # whichever of the failure notification and the Success answer reaches race control first
        ft = None
        late_cancel = True
        res.count("worker_died_after_finishing_its_work")
    if real and ft is not None:
        # With the real race control actor several messages lie between "results computed, stored and printed" (BenchmarkComplete handled)
        # and the Success answer.  A worker that dies or a user who cancels *after* the benchmark actor has handled BenchmarkComplete did
        # not interfere with the race any more; a cancellation takes effect when the benchmark actor handles BenchmarkCancelled.
        done_pos = rc.handled("BenchmarkComplete")
        if kind == "cancel":
            eff = rc.handled("BenchmarkCancelled")
            if done_pos is not None and (eff is None or eff > done_pos):
                ft = None
                late_cancel = True
                res.count("cancel_took_effect_after_the_race_had_completed")
        elif kind == "worker-dies" and done_pos is not None and state.get("fault_pos", 0) > done_pos:
            ft = None
            res.count("worker_died_after_the_race_had_completed")
    injected = ft is not None
    want = "cancelled" if kind == "cancel" else "failed"
    if not injected:
        # the fault point was not reached on this schedule (e.g. fewer store writes): the race must then complete normally
        if r.phase != "complete" and not (late_cancel and r.phase in ("cancelled", "failed")):
            v = ("no-fault-but-not-complete", f"fault never fired, phase {r.phase}, {names}")
    else:
        if rc.first_terminal is None:
            v = ("no-failure-notification", f"fault at {ft}: race control never got a failure (status {r.status}, phase {r.phase}, time {r.end_time}); saw {names}; {r.error}")
        elif rc.first_terminal[0] == "complete" and kind == "worker-dies" and last_element_done(sname, r.log, ft):
            # the process died after it had done all of its work and reported its last join point: nothing went wrong *during* the race
            res.count("worker_died_after_finishing_its_work")
        elif rc.first_terminal[0] == "complete":
            v = ("reported-as-success", f"fault at {ft} but race control got BenchmarkComplete first: {names}")
        elif rc.first_terminal[0] != want:
            v = ("wrong-terminal-message", f"expected {want}, got {rc.first_terminal[0]}: {names}")
        elif rc.first_terminal[1] - ft > BOUND_AFTER_FAULT:
            v = ("failure-notification-late", f"fault at {ft}, notification at {rc.first_terminal[1]}")
        elif "BenchmarkComplete" in names and kind != "cancel" and not late and not real:
            v = ("complete-after-failure", f"{names}")
        elif rc.summaries:
            v = ("results-printed", "summary report invoked although the race failed")
        elif rc.co.race.results:
            v = ("results-computed", "final results added to the race although it failed")
        else:
            rf = os.path.join(racesim.scratch_dir(), "races", "verif-race", "race.json")
            if os.path.exists(rf):
                with open(rf) as f:
                    if json.load(f).get("results"):
                        v = ("results-stored", "race.json contains results although the race failed")
        if v is None and r.status == "deadlock":
            v = ("shutdown-deadlock", f"{r.error}")
        if v is None and r.threads_left:
            v = ("threads-left-after-shutdown", f"{r.threads_left}")
    if late and injected and rc.complete_after_terminal:
        res.count("benchmark_complete_arrived_after_the_failure_or_cancel_notification")
    res.case(
        case_repr={"shape": sname, "fault": kind + ("-late-teardown" if late else ""), "where": where, "choices": list(ch.choices)[:60], "fault_time": ft,
                   "race_control_saw": names, "notified_at": rc.first_terminal[1] if rc.first_terminal else None}
        if res.sample_now(499)
        else None,
        nontrivial_key=(spec, tuple(ch.choices)),
        outcome_key=(sname, kind, late, rc.first_terminal[0] if rc.first_terminal else None, injected, v[0] if v else "ok", tuple(names)),
    )
    if lp and any(t[0] == "preempt" and t[1].startswith("line:") for t in r.sim.trace):
        res.count("executions_with_a_line_level_preemption")
    res.states += r.steps
    if v:
        res.violation(
            f"failure:{v[0]}:{kind}" + (":late-teardown" if late else ""),
            f"{sname} fault={kind}{'-late-teardown' if late else ''}@{where} deviations={ch.deviations} choices={[(i, c) for i, c in enumerate(ch.choices) if c]}: {v[1]}",
            {"spec": list(spec), "choices": list(ch.choices)},
        )


def run(tier, seed):
    specs = fault_specs(tier)
    res = explore.explore_parallel(check_race, specs, 1, seed=seed)
    res.extra["fault_specs"] = len(specs)
    if tier == "thorough":
        # two deviations: the fault combined with one more delayed / reordered message, on the fault kinds whose reporting path has
        # several hops (worker -> driver -> race control) and on the completed-by shape
        deep = [sp for sp in specs if (sp[0] in ("S3", "S1") and sp[1] in ("api-abort", "connection-error", "runner-raises", "store-raises") and sp[2] in ("mid", "last", 3))
                or sp[1] in ("store-raises-late-teardown",)]
        deep = [tuple(sp) + (True,) for sp in deep]
        r2 = explore.explore_parallel(check_race, deep, 2, seed=seed, max_exec_per_subtree=250)
        res.merge(r2)
        res.extra["fault_specs_at_bound_2"] = len(deep)
        res.bound_completed = "1 on every fault spec, 2 on fault_specs_at_bound_2" + ("" if res.exhaustive else " (capped at 250 executions per first-level subtree)")
    else:
        res.bound_completed = 1
    return res


def replay(data):
    res = Result()
    sp = data["spec"]
    check_race(tuple(sp), explore.Chooser(tuple(data["choices"])), res)
    return [v for lst in res.violations.values() for v in lst]
