"""C01 -- the schedule runs step by step on all clients under any message timing.

Stateless deviation-bounded exploration of complete simulated races (mc/racesim.py): every order in which pending actor
messages, due wake-ups, executor-thread steps and time advances can fire, within d deviations of the default schedule, for a
catalogue of schedule shapes x load-driver layouts x service-time profiles x clock offsets.  The oracle looks only at the
request log of the simulated cluster and at the messages that reach race control.
"""
from mc import explore, loadgen, par, racesim
from mc.core import Result

ID = "C01"
LEVEL = "model_checking"
RULE = (
    "configurations: schedule shapes S1 (two sequential tasks), S2 (parallel then task), S3 (parallel completed-by a task with an endless "
    "sibling, then a task), S4 (completed-by any), S5a/S5b (over-committed parallel with / without completed-by), S6 (time-period task), S7 "
    "(unequal client counts, idle clients), S8 (completed-by task on the last of three clients, two clients per worker), S5c (second wave of "
    "a completed-by element on a worker that does not host the completing task), S3x2 (two completed-by elements in a row), S4x2 (two completed-by-any elements in a row), S14 (the completed-by task itself has two clients), S18 (a completed-by-any element that leaves a worker without a task), S5d (three rows per client below a completed-by element) x layouts {1 host x 1 core, 1x2, 2 hosts x 1, 1x3} x service-time profiles {uniform, client-skewed, "
    "task-skewed} x clock offsets {0, +1000 s on the second host}; schedules: every sequence of transitions (deliver head of a "
    "sender/receiver channel | resume an executor thread | deliver a due wake-up | advance time, i.e. delay everything pending | run the "
    "executor thread at a sync point inside a handler) within the deviation bound. non-trivial = execution with at least one deviation; "
    "distinct = (configuration, choice sequence)"
)
ASSUMPTIONS = [
    "transport = mc/actorsim.py (FIFO per sender/receiver pair, pickled messages, Thespian retry/poison/exit semantics); real TCP transport not modelled",
    "executor-thread preemption only at sync points (future.done/exception/result, Sampler.samples) and loop waits",
    "endless sibling tasks are tasks with a 10^5 s time period: the race completing proves they were ended by completed-by",
]

ENDLESS = 100_000
# every race of the catalogue completes within 45 virtual seconds on the default schedule; each deviation can delay it by at most
# one wake-up interval (5 s)
HORIZON = 150.0


def T(key, clients=1, it=None, completes=False, any_=False, time_period=None, warmup_time=None):
    kw = {}
    if it is not None:
        kw["iterations"] = it
    if time_period is not None:
        kw["time_period"] = time_period
        kw["warmup_time_period"] = warmup_time or 0
    return loadgen.make_task(key, key, clients=clients, completes_parent=completes, any_completes_parent=any_, **kw)


def P(tasks, clients=None):
    from esrally.track import track

    return track.Parallel(tasks, clients=clients)


def shapes():
    return {
        "S1": lambda: [T("a", 2, it=3), T("b", 1, it=2)],
        "S2": lambda: [P([T("a", 1, it=2), T("b", 1, it=3)]), T("c", 2, it=1)],
        "S3": lambda: [P([T("a", 1, it=3, completes=True), T("b", 1, time_period=ENDLESS)]), T("c", 2, it=2)],
        "S4": lambda: [P([T("a", 1, it=2, any_=True), T("b", 1, it=400, any_=True)]), T("c", 1, it=2)],
        "S5a": lambda: [P([T("a", 1, it=2, completes=True), T("b", 1, time_period=ENDLESS), T("c", 1, time_period=ENDLESS)], clients=2), T("d", 2, it=1)],
        "S5b": lambda: [P([T("a", 1, it=2), T("b", 1, it=2), T("c", 1, it=1)], clients=2), T("d", 2, it=1)],
        "S6": lambda: [T("a", 2, time_period=3, warmup_time=1), T("b", 1, it=1)],
        "S7": lambda: [T("a", 3, it=1), T("b", 1, it=2), P([T("c", 2, it=1), T("d", 1, it=1)])],
        # the completing task is run by the last client, on a worker that also/only simulates other client ids than its own id
        "S8": lambda: [P([T("b", 2, time_period=ENDLESS), T("a", 1, it=3, completes=True)]), T("c", 3, it=1)],
        # a worker that does not host the completing task owns a second wave of the element (an endless task) and has finished its first
        "S5c": lambda: [P([T("a", 1, it=6, completes=True), T("b", 1, it=1), T("c", 1, it=1), T("d", 1, time_period=ENDLESS)], clients=2), T("e", 2, it=1)],
        # two completed-by elements in a row: per-step state of the coordinator must not leak into the next step
        "S3x2": lambda: [P([T("a", 1, it=3, completes=True), T("b", 1, time_period=ENDLESS)]), P([T("c", 1, it=2, completes=True), T("d", 1, time_period=ENDLESS)]), T("e", 2, it=1)],
        # two completed-by-any elements in a row: the second one, too, ends when its first task is done (d alone would run past the horizon)
        "S4x2": lambda: [P([T("a", 1, it=2, any_=True), T("b", 1, it=400, any_=True)]), P([T("c", 1, it=2, any_=True), T("d", 1, it=400, any_=True)]), T("e", 1, it=2)],
        # the completing task itself is run by two clients (co-located on one worker in 1x1): the faster one must not end the slower one
        "S14": lambda: [P([T("a", 2, it=3, completes=True), T("b", 1, time_period=ENDLESS)]), T("c", 2, it=1)],
        # a completed-by-any element that needs fewer clients than the element before it: a worker without any task in the element reaches the
        # next join point at once; that is not "a task finished" and must not end the element
        "S18": lambda: [T("z", 3, it=1), P([T("a", 1, it=2, any_=True), T("b", 1, it=400, any_=True)]), T("c", 1, it=2)],
        # three rows per client below a completed-by element: once the named task is done every remaining row is skipped, not just the next
        "S5d": lambda: [P([T("a", 1, it=2, completes=True), T("b", 1, it=1), T("c", 1, it=1), T("d", 1, time_period=ENDLESS), T("e", 1, it=1),
                           T("f", 1, time_period=ENDLESS)], clients=2), T("g", 2, it=1)],
    }


LAYOUTS = {"1x1": (["localhost"], 1), "1x2": (["localhost"], 2), "2x1": (["localhost", "h2"], 1), "1x3": (["localhost"], 3)}
PROFILES = ["uniform", "client-skewed", "task-skewed"]


def behaviour_for(profile):
    def behaviour(entry):
        _, _, tkey, ci, k, _w = entry["target"].split("/")
        if profile == "uniform":
            st = 0.5
        elif profile == "client-skewed":
            st = 0.25 + 0.5 * (entry["client_id"] or 0)
        else:
            st = 0.25 * (1 + (ord(tkey[0]) - ord("a")) % 3)
        return {"service_time": st, "body": {}}

    return behaviour


def configs(tier):
    out = []
    for shape in shapes():
        for lname in LAYOUTS:
            for profile in PROFILES:
                offs = [None]
                if lname == "2x1":
                    offs = [None, 1000.0]
                for off in offs:
                    out.append((shape, lname, profile, off))
    return out


def leaf_tasks(schedule):
    out = []
    for k, el in enumerate(schedule):
        for t in el:
            out.append((k, t))
    return out


def check_race(cfg, ch, res):
    shape, lname, profile, off = cfg[:4]
    lp = len(cfg) > 4 and bool(cfg[4])  # line-level preemption of worker handlers by the executor thread
    schedule = shapes()[shape]()
    hosts, cores = LAYOUTS[lname]
    offsets = {"h2": off} if off else {}
    r = racesim.run_race(schedule, hosts, cores, behaviour_for(profile), ch, offsets=offsets, horizon=HORIZON, line_preempt=lp)
    names = [n for _t, n, _m in r.received]
    v = None
    leafs = leaf_tasks(schedule)
    elem_of = {t.name: k for k, t in leafs}
    task_of = {t.name: t for _k, t in leafs}
    per_task = {}
    for e in r.log:
        _, _, tkey, ci, kk, _w = e["target"].split("/")
        per_task.setdefault(tkey, {}).setdefault(int(ci), []).append(e)
    if r.handler_errors:
        v = ("handler-raises", f"{r.handler_errors[0][:2]}: {r.handler_errors[0][2][-300:]}")
    elif "BenchmarkFailure" in names:
        m = [m for _t, n, m in r.received if n == "BenchmarkFailure"][0]
        v = ("benchmark-failure", f"{str(m.message)[-300:]} {str(getattr(m, 'cause', ''))[-200:]}")
    elif r.phase != "complete":
        v = ("hang", f"race did not complete (status {r.status}, phase {r.phase}, virtual time {r.end_time}, {r.error}); race control saw {names}")
    else:
        complete_times = [t for t, n, _m in r.received if n == "BenchmarkComplete"]
        if names.count("BenchmarkComplete") != 1:
            v = ("completion-count", f"{names.count('BenchmarkComplete')} BenchmarkComplete messages")
        elif names.count("TaskFinished") != len(schedule):
            v = ("task-finished-count", f"{names.count('TaskFinished')} TaskFinished for {len(schedule)} schedule elements")
        elif r.log and complete_times[0] < max(e["t_end"] for e in r.log) - 1e-9:
            v = ("complete-before-last-request", f"BenchmarkComplete at {complete_times[0]}, last response at {max(e['t_end'] for e in r.log)}")
        elif names.index("BenchmarkComplete") < max([i for i, n in enumerate(names) if n == "TaskFinished"] + [-1]):
            v = ("complete-before-task-finished", f"{names}")
    if v is None:
        # (a) ordering between schedule elements
        spans = {}
        for tkey, byci in per_task.items():
            k = elem_of[tkey]
            for es in byci.values():
                for e in es:
                    lo, hi = spans.get(k, (float("inf"), float("-inf")))
                    spans[k] = (min(lo, e["t_start"]), max(hi, e["t_end"]))
        ks = sorted(spans)
        for a, b in zip(ks, ks[1:]):
            if spans[b][0] < spans[a][1] - 1e-9:
                v = ("element-overlap", f"element {b} issued a request at {spans[b][0]} before element {a} finished at {spans[a][1]}")
                break
    if v is None:
        # (b) exactly once / (d) completed-by
        for k, t in leafs:
            el = schedule[k]
            cut_short = any(x.completes_parent or x.any_completes_parent for x in el) and not t.completes_parent
            byci = per_task.get(t.name, {})
            if t.iterations is not None and not cut_short:
                if sorted(byci) != list(range(t.clients)):
                    v = ("task-clients", f"task {t.name}: client indices {sorted(byci)} ran it, expected 0..{t.clients - 1}")
                    break
                for ci, es in byci.items():
                    if len(es) != t.iterations:
                        v = ("iteration-count", f"task {t.name} client {ci}: {len(es)} requests, expected {t.iterations}")
                        break
                    if len({e["client_id"] for e in es}) != 1:
                        v = ("task-split-over-clients", f"task {t.name} client index {ci} served by clients {sorted({e['client_id'] for e in es})}")
                        break
                if v:
                    break
            elif t.time_period is not None and t.time_period < ENDLESS and not cut_short:
                for ci in range(t.clients):
                    es = byci.get(ci, [])
                    if not es:
                        v = ("task-clients", f"time-based task {t.name} client {ci} never ran")
                        break
                    dur = es[-1]["t_end"] - es[0]["t_start"]
                    if dur < t.time_period + (t.warmup_time_period or 0) - 1e-9:
                        v = ("time-period-cut-short", f"task {t.name} client {ci} ran for {dur}")
                        break
                if v:
                    break
            elif cut_short and t.any_completes_parent:
                # at least one of the 'any' tasks ran to its end
                pass
        if v is None:
            # (d) an endless sibling keeps issuing requests until its worker learns that the named task is done
            for k, el in enumerate(schedule):
                named = [t for t in el if t.completes_parent]
                if not named or not per_task.get(named[0].name):
                    continue
                named_end = max(e["t_end"] for es in per_task[named[0].name].values() for e in es)
                for t in el:
                    if t.completes_parent or t.time_period != ENDLESS:
                        continue
                    for ci, es in per_task.get(t.name, {}).items():
                        if es and es[-1]["t_end"] < named_end - 1e-9:
                            v = ("sibling-ended-before-completed-by-task", f"element {k}: task {t.name} client {ci} stopped at {es[-1]['t_end']}, the completed-by task {named[0].name} finished at {named_end}")
                            break
                    if v:
                        break
                if v:
                    break
        if v is None:
            for k, el in enumerate(schedule):
                anys = [t for t in el if t.any_completes_parent]
                if anys and not any(all(len(es) == t.iterations for es in per_task.get(t.name, {}).values()) and per_task.get(t.name) for t in anys):
                    v = ("completed-by-any-nobody-finished", f"element {k}: no task ran to its end: { {t.name: {ci: len(es) for ci, es in per_task.get(t.name, {}).items()} for t in anys} }")
    if v is None and r.threads_left:
        v = ("threads-left-after-shutdown", f"{r.threads_left}")
    if v is None and r.shutdown_errors:
        v = ("shutdown-handler-raises", f"{r.shutdown_errors[0][:2]}: {r.shutdown_errors[0][2][-300:]}")
    res.case(
        case_repr={"shape": shape, "layout": lname, "profile": profile, "clock_offset_h2": off, "schedule_choices": list(ch.choices)[:60],
                   "requests": len(r.log), "virtual_end": r.end_time, "race_control_saw": names}
        if res.sample_now(2003)
        else None,
        nontrivial_key=(cfg, tuple(ch.choices)) if any(ch.choices) else None,
        outcome_key=(shape, tuple(names), len(r.log), round(r.end_time, 3), v[0] if v else "ok"),
    )
    if lp and any(t[0] == "preempt" and t[1].startswith("line:") for t in r.sim.trace):
        res.count("executions_with_a_line_level_preemption")
    res.states += r.steps
    if v:
        res.violation(
            f"race:{v[0]}:{shape}",
            f"{shape} layout={lname} profile={profile} offset={off} deviations={ch.deviations} choices={[(i, c) for i, c in enumerate(ch.choices) if c]}: {v[1]}",
            {"cfg": list(cfg), "choices": list(ch.choices)},
        )


def run(tier, seed):
    cfgs = configs(tier)
    if tier == "quick":
        cfgs = [c for c in cfgs if c[2] == "uniform" or c[0] in ("S3", "S5a", "S8") or (c[0] in ("S4", "S7", "S14") and c[2] == "client-skewed")]
        cfgs = [c for c in cfgs if not (c[0] in ("S5c", "S3x2", "S4x2") and c[1] in ("1x1", "1x3"))]
        # (S14 on 1x3: the two clients of the completed-by task sit on two different workers)
        cfgs = [c for c in cfgs if not (c[0] == "S14" and (c[1] == "2x1" or c[2] == "task-skewed"))]
        cfgs = [c for c in cfgs if not (c[0] == "S5d" and (c[1] in ("2x1", "1x3") or c[2] != "uniform"))]
    res = explore.explore_parallel(check_race, cfgs, 1, seed=seed, max_exec_per_subtree=None)
    deep = [c for c in cfgs if c[0] == "S5a" and c[1] == "1x2" and c[2] == "uniform"] if tier == "quick" else [
        c for c in cfgs if c[0] in ("S3", "S4", "S5a", "S5b", "S5c", "S3x2") and c[1] in ("1x2", "2x1") and c[2] != "task-skewed"
    ]
    # at bound 2 every line of a worker handler (esrally/driver/driver.py) is a preemption point for an executor step due at that instant
    deep = [tuple(c) + (True,) for c in deep]
    r2 = explore.explore_parallel(check_race, deep, 2, seed=seed, max_exec_per_subtree=60 if tier == "quick" else 40000)
    res.merge(r2)
    res.extra["configurations"] = len(cfgs)
    res.extra["configurations_at_bound_2"] = len(deep)
    res.bound_completed = "1 on every configuration, 2 on the completed-by configurations listed in configurations_at_bound_2" + ("" if res.exhaustive else " (capped)")
    return res


def replay(data):
    res = Result()
    c = data["cfg"]
    check_race(tuple(c), explore.Chooser(tuple(data["choices"])), res)
    return [v for lst in res.violations.values() for v in lst]
