"""C08 -- race results are correct statistics of the normal samples and survive storage.

Bounded-exhaustive enumeration of multisets of metric records put into a real InMemoryMetricsStore, results computed by
the real GlobalStatsCalculator (metrics.calculate_results), stored by the real FileRaceStore and read back; reference =
exact-rational percentiles (linear interpolation between closest ranks), plain min/max/mean, failed/all.
"""
import datetime
import fractions
import itertools
import math
import os
import shutil
import statistics
import tempfile

from mc import par
from mc.core import Result

ID = "C08"
LEVEL = "exploration"
RULE = (
    "record multisets: every multiset of <= 5 (thorough 6) (value, sample type) pairs over the values {0, 0.5, 1, 2, 3.25, 100} for the "
    "first task (the second task gets a shifted copy; both tasks share one operation and the second is named like the operation; the "
    "first task also has dependent sub-request records of another operation type, the second task's latency / processing_time exist only "
    "for part of its records), "
    "success flags from every (ok, failed, warm-up ok, warm-up failed) count vector in 0..2, and structured streams at the "
    "percentile-set boundaries 9, 10, 99, 100, 999, 1000, 9999, 10000 and at 10001, 20001 with and without warm-up records. Each case: calculate results, "
    "compare with the reference, repeat without the warm-up records (differential), store and re-load race.json. Cluster-level "
    "results: 30 index-stats / GC / segment / size / ingest metrics (with per-shard values where the telemetry device records them) "
    "present all, none, each alone, all but each (thorough: every pair) x 1..3 values each: computed result = documented aggregation, "
    "every attribute identical after the round trip through race.json. Race structures: every combination of 8 optional parts "
    "(auto-generated challenge, user tags, track/car/plugin parameters, car list, revisions, cluster details) stored, found by id, listed, every attribute and result read back. "
    "non-trivial = at least 2 normal records; distinct = the multiset"
)
ASSUMPTIONS = [
    "in-memory metrics store (the Elasticsearch store computes percentiles server-side and is not exercised)",
    "reference percentile: rank = p/100*(n-1), linear interpolation between the closest ranks, in exact rationals; tolerance 1e-9 relative",
]

VALUES = [0, 0.5, 1, 2, 3.25, 100]
# (10001, 20001: the rank of the 99.99th percentile is a whole number only up to rounding: 0.9999 * 10000 = 9998.999999999998)
BOUNDARY = [9, 10, 99, 100, 999, 1000, 9999, 10000, 10001, 20001]
TASKS = [("search-cold", "search", "search"), ("search", "search", "search")]  # (task name, operation name, operation type)
RACE_TS = datetime.datetime(2016, 1, 31)


def ref_percentile(sorted_vals, p):
    n = len(sorted_vals)
    rank = fractions.Fraction(str(p)) / 100 * (n - 1)
    lo = rank.numerator // rank.denominator
    fr = rank - lo
    if fr == 0:
        return fractions.Fraction(sorted_vals[lo])
    a, b = fractions.Fraction(sorted_vals[lo]), fractions.Fraction(sorted_vals[lo + 1])
    return a + (b - a) * fr


def ref_percentile_set(n):
    if n == 1:
        return [100]
    if n < 10:
        return [50, 100]
    if n < 100:
        return [50, 90, 100]
    if n < 1000:
        return [50, 90, 99, 100]
    if n < 10000:
        return [50, 90, 99, 99.9, 100]
    return [50, 90, 99, 99.9, 99.99, 100]


def enc(p):
    return str(float(p)).replace(".", "_")


def close(a, b):
    if a is None or b is None:
        return a is b
    return abs(float(a) - float(b)) <= 1e-9 * max(1.0, abs(float(a)), abs(float(b)))


_ENV = {}


def env():
    if _ENV:
        return _ENV
    from esrally import config, metrics
    from esrally.track import track

    root = tempfile.mkdtemp(prefix="verif-c08-")
    cfg = config.Config()
    cfg.add(config.Scope.application, "system", "env.name", "verif")
    cfg.add(config.Scope.application, "track", "params", {})
    cfg.add(config.Scope.application, "node", "root.dir", root)
    cfg.add(config.Scope.application, "system", "list.max_results", 100)
    cfg.add(config.Scope.application, "system", "time.start", RACE_TS)
    cfg.add(config.Scope.application, "system", "race.id", "verif-race")
    tasks = []
    for name, opname, optype in TASKS:
        tasks.append(track.Task(name, track.Operation(opname, optype, params={}, param_source="driver-test-param-source")))
    ch = track.Challenge("c", default=True, schedule=tasks)
    trk = track.Track(name="verif", challenges=[ch])
    _ENV.update(cfg=cfg, root=root, track=trk, challenge=ch, metrics=metrics)
    import atexit

    atexit.register(lambda: shutil.rmtree(root, ignore_errors=True))
    return _ENV


def normal_pos(recs):
    """for every record: (index among the normal records, number of normal records), None for warm-up records"""
    nn = sum(1 for r in recs if r[1])
    out, k = [], 0
    for r in recs:
        if r[1]:
            out.append((k, nn))
            k += 1
        else:
            out.append(None)
    return out


def has_metric(ti, metric, j, n):
    """which request metrics the j-th of n *normal* records of task ti carries: the first task has all of them; the second task has latency
    only for the first half of its normal records and processing_time for all but the last one (service_time, on which the error rate is
    based, always).  Warm-up records carry everything, so removing them does not change what the normal records carry."""
    if ti == 0 or metric in ("service_time", "throughput"):
        return True
    if metric == "latency":
        return j < (n + 1) // 2
    return j < n - 1 or n == 1


def build_store(records, interleaved=False):
    """records: {task index: list of (value, is_normal, success)}; interleaved: the records of the tasks arrive round-robin (tasks of a
    parallel element whose samples are stored in rounds) instead of task by task"""
    e = env()
    m = e["metrics"]
    store = m.InMemoryMetricsStore(e["cfg"])
    store.open("verif-race", RACE_TS, "verif", "c", "defaults", create=True)
    k = 0
    order = [(ti, j) for ti, recs in records.items() for j in range(len(recs))]
    stamp = {x: i + 1 for i, x in enumerate(order)}  # time stamps do not depend on the arrival order
    if interleaved:
        order.sort(key=lambda x: (x[1], x[0]))
    poss = {ti: normal_pos(recs) for ti, recs in records.items()}
    for ti, j in order:
        name, opname, optype = TASKS[ti]
        pos = poss[ti]
        for j, (value, normal, success) in [(j, records[ti][j])]:
            st = m.SampleType.Normal if normal else m.SampleType.Warmup
            k = stamp[(ti, j)]
            meta = {"success": success}
            if ti == 0:
                # a dependent sub-request of a composite operation: recorded under the same task with the sub-request's own operation
                # and operation type; it belongs to neither the task's service-time statistics nor its error rate
                store.put_value_cluster_level(
                    "service_time", value * 7 + 1000, "ms", task=name, operation="sub-request", operation_type="raw-request", sample_type=st,
                    absolute_time=1000.0 + k, relative_time=float(k), meta_data={"success": True},
                )
            for metric, v, unit in (
                ("latency", value, "ms"),
                ("service_time", value * 0.5, "ms"),
                ("processing_time", value * 2, "ms"),
                ("throughput", value * 10, "docs/s"),
            ):
                if pos[j] is not None and not has_metric(ti, metric, pos[j][0], pos[j][1]):
                    continue
                store.put_value_cluster_level(
                    metric, v, unit, task=name, operation=opname, operation_type=optype, sample_type=st,
                    absolute_time=1000.0 + k, relative_time=float(k), meta_data=meta,
                )
    return store


def expect_task(recs, ti=0):
    normal = [r for r in recs if r[1]]
    n = len(normal)
    out = {"n": n}
    for metric, factor in (("latency", 1), ("service_time", 0.5), ("processing_time", 2)):
        vals = sorted(fractions.Fraction(str(r[0])) * fractions.Fraction(str(factor)) for j, r in enumerate(normal) if has_metric(ti, metric, j, n))
        if not vals:
            out[metric] = {}
            continue
        # the percentile set of a metric depends on the number of normal samples of *that* metric
        d = {enc(p): ref_percentile(vals, p) for p in ref_percentile_set(len(vals))}
        d["mean"] = sum(vals) / len(vals)
        d["_n"] = len(vals)
        d["unit"] = "ms"
        d["_min"], d["_max"], d["_median"] = vals[0], vals[-1], fractions.Fraction(statistics.median(vals))
        out[metric] = d
    tv = sorted(fractions.Fraction(str(r[0])) * 10 for r in normal)
    out["throughput"] = (
        {"min": tv[0], "max": tv[-1], "mean": sum(tv) / n, "median": fractions.Fraction(statistics.median(tv)), "unit": "docs/s"} if tv else None
    )
    out["error_rate"] = (fractions.Fraction(sum(1 for r in normal if not r[2]), n)) if n else fractions.Fraction(0)
    return out


def compare_task(entry, exp, all_zero_thr):
    for metric in ("latency", "service_time", "processing_time"):
        got, want = entry[metric], exp[metric]
        if not want:
            if got:
                return ("values-from-warmup-only", f"{metric}: task has no normal samples but reports {dict(got)}")
            continue
        gk = [k for k in got if k not in ("mean", "unit")]
        wk = [k for k in want if k not in ("mean", "unit") and not k.startswith("_")]
        if gk != wk:
            return ("percentile-set", f"{metric}: {want.get('_n', exp['n'])} normal samples report percentiles {gk}, expected {wk}")
        prev = None
        for k in wk:
            if not close(got[k], want[k]):
                return ("percentile-value", f"{metric} p{k}: got {got[k]}, linear interpolation gives {float(want[k])} (n={exp['n']})")
            if prev is not None and got[k] < prev - 1e-12:
                return ("percentile-not-monotone", f"{metric}: {dict(got)}")
            prev = got[k]
            if not (float(want["_min"]) - 1e-9 <= got[k] <= float(want["_max"]) + 1e-9):
                return ("percentile-outside-range", f"{metric} p{k}={got[k]} outside [{float(want['_min'])}, {float(want['_max'])}]")
        if not close(got[enc(100)], want["_max"]):
            return ("p100-not-max", f"{metric}: p100={got[enc(100)]} max={float(want['_max'])}")
        if enc(50) in got and not close(got[enc(50)], want["_median"]):
            return ("p50-not-median", f"{metric}: p50={got[enc(50)]} median={float(want['_median'])}")
        if not close(got["mean"], want["mean"]):
            return ("mean", f"{metric}: mean {got['mean']} expected {float(want['mean'])}")
        if got["unit"] != "ms":
            return ("unit", f"{metric}: {got['unit']}")
    thr = entry["throughput"]
    w = exp["throughput"]
    if w is None:
        if any(thr.get(k) is not None for k in ("min", "mean", "median", "max")):
            return ("values-from-warmup-only", f"throughput: no normal samples but {thr}")
    else:
        for k in ("min", "mean", "median", "max"):
            if not close(thr.get(k), w[k]) and not (thr.get(k) is None and False):
                tag = ":all-zero" if all_zero_thr else (":zero-mean-or-median" if (w["mean"] == 0 or w["median"] == 0) else "")
                return ("throughput-" + k + tag, f"throughput {k}: got {thr.get(k)}, raw values give {float(w[k])}; reported {thr}")
        if thr.get("unit") != "docs/s":
            return ("unit", f"throughput unit {thr.get('unit')}")
    if not close(entry["error_rate"], exp["error_rate"]):
        return ("error-rate", f"error rate {entry['error_rate']} expected {float(exp['error_rate'])}")
    return None


def results_for(records, interleaved=False):
    e = env()
    store = build_store(records, interleaved)
    race = e["metrics"].Race(
        "2.12.0", None, "verif", "verif-race", RACE_TS, "benchmark-only", {}, e["track"], {}, e["challenge"], "defaults", {}, {},
    )
    res = e["metrics"].calculate_results(store, race)
    return res, race


def check_case(records, res, roundtrip=True):
    e = env()
    v = None
    try:
        gs, race = results_for(records)
        d = gs.as_dict()
        entries = {x["task"]: x for x in d["op_metrics"]}
        if [x["task"] for x in d["op_metrics"]] != [t[0] for t in TASKS]:
            v = ("task-entries", f"{[x['task'] for x in d['op_metrics']]}")
        for ti, (name, opname, _t) in enumerate(TASKS):
            if v:
                break
            recs = records.get(ti, [])
            exp = expect_task(recs, ti)
            ent = gs.metrics(name)
            if ent is None or ent.get("task") != name:
                v = ("metrics-lookup", f"metrics({name!r}) returned the entry of task {ent.get('task') if ent else None!r}")
                break
            normal_thr = [r[0] for r in recs if r[1]]
            v = compare_task(ent, exp, bool(normal_thr) and all(x == 0 for x in normal_thr))
            if v:
                v = (v[0], f"task {name}: {v[1]}")
        if v is None and any(not r[1] for recs in records.values() for r in recs):
            # differential: warm-up records never influence any result
            gs2, _ = results_for({ti: [r for r in recs if r[1]] for ti, recs in records.items()})
            a, b = gs.as_dict()["op_metrics"], gs2.as_dict()["op_metrics"]
            def numbers(o):
                # the unit label of an otherwise empty result is not a result
                return {k: ({kk: vv for kk, vv in o[k].items() if kk != "unit"} if isinstance(o[k], dict) else o[k])
                        for k in ("throughput", "latency", "service_time", "processing_time", "error_rate")}

            for x, y in zip(a, b):
                xx, yy = numbers(x), numbers(y)
                if repr(xx) != repr(yy):
                    v = ("warmup-influences-result", f"task {x['task']}: with warm-up records {xx}, without {yy}")
                    break
        if v is None and roundtrip and sum(1 for recs in records.values() if recs) >= 2:
            # differential: the order in which the records of different tasks reached the store is irrelevant
            gs3, _ = results_for(records, interleaved=True)
            a, b = gs.as_dict()["op_metrics"], gs3.as_dict()["op_metrics"]
            for x, y in zip(a, b):
                if repr(x) != repr(y):
                    key = next((k for k in x if repr(x[k]) != repr(y.get(k))), None)
                    v = ("result-depends-on-record-order", f"task {x['task']}: {key} is {x.get(key)} with the records stored task by task, {y.get(key)} with the tasks' records interleaved")
                    break
        if v is None and roundtrip:
            m = e["metrics"]
            race.add_results(gs)
            fs = m.FileRaceStore(e["cfg"])
            fs.store_race(race)
            back = fs.find_by_race_id("verif-race")
            gb = m.GlobalStats(back.results)
            import json

            if json.loads(json.dumps(gs.as_flat_list())) != json.loads(json.dumps(gb.as_flat_list())):
                v = ("roundtrip-flat-list", f"stored {gs.as_flat_list()[:3]} read back {gb.as_flat_list()[:3]}")
            else:
                for name, _o, _t in TASKS:
                    x, y = gs.metrics(name), gb.metrics(name)
                    if json.loads(json.dumps(x)) != y:
                        v = ("roundtrip-task-metrics", f"task {name}: computed {x} read back {y}")
                        break
    except Exception as ex:  # noqa
        import traceback

        v = ("raises", f"{type(ex).__name__}: {ex} @ {traceback.extract_tb(ex.__traceback__)[-1][:3]}")
    n_norm = sum(1 for recs in records.values() for r in recs if r[1])
    small = {ti: recs for ti, recs in records.items()} if sum(len(r) for r in records.values()) <= 12 else {"sizes": {ti: len(r) for ti, r in records.items()}}
    res.case(
        case_repr={"records(value, normal, success) per task": small} if res.sample_now(1501) else None,
        nontrivial_key=repr(small) if n_norm >= 2 else None,
        outcome_key=(v[0] if v else "ok", n_norm, tuple(sorted(len(r) for r in records.values()))),
    )
    if v:
        res.violation(f"results:{v[0]}", f"records {small}: {v[1]}", {"records": {str(k): [list(r) for r in recs] for k, recs in records.items()}} if sum(len(r) for r in records.values()) <= 40 else {"structured": True, "sizes": {str(k): len(r) for k, r in records.items()}, "key": small if isinstance(small, dict) else None, "gen": getattr(records, "gen", None)})


def small_cases(tier):
    maxn = 5 if tier == "quick" else 6
    items = [(v, t) for v in VALUES for t in (True, False)]
    for n in range(1, maxn + 1):
        for combo in itertools.combinations_with_replacement(items, n):
            recs0 = [(v, t, True) for v, t in combo]
            recs1 = [(v + 1, t, True) for v, t in combo[: max(1, n - 1)]]
            yield {0: recs0, 1: recs1}
    # success flags
    for ok, fail, wok, wfail in itertools.product(range(3), repeat=4):
        if ok + fail + wok + wfail == 0:
            continue
        recs = [(1.0, True, True)] * ok + [(2.0, True, False)] * fail + [(3.0, False, True)] * wok + [(4.0, False, False)] * wfail
        yield {0: recs, 1: [(1.0, True, False)] * fail + [(5.0, True, True)] * wok}


def structured(n, variant):
    if variant == 0:
        vals = [float(i) for i in range(n)]
    elif variant == 1:
        vals = [float((i * i) % 97) + 0.25 for i in range(n)]
    else:
        vals = [1.0] * (n - 1) + [1000.0]
    return vals


def boundary_cases(tier):
    for n in BOUNDARY:
        if tier == "quick" and n > 1000:
            variants = (1,) if n <= 10000 else (0,)
        else:
            variants = (0, 1, 2)
        for variant in variants:
            for warm in (0, 1, 7):
                vals = structured(n, variant)
                recs = [(v, True, (i % 10) != 3) for i, v in enumerate(vals)] + [(5000.0 + i, False, i % 2 == 0) for i in range(warm)]
                yield {"n": n, "variant": variant, "warm": warm}, {0: recs, 1: [(2.0, True, True)]}


# ------------------------------------------------------------------------------------------------ layer G: cluster-level results
# store metric -> (result attribute, aggregation) as documented in docs/metrics.rst / docs/summary_report.rst
GLOBAL_TABLE = [
    ("indexing_total_time", "total_time", "sum"), ("indexing_throttle_time", "indexing_throttle_time", "sum"),
    ("merges_total_time", "merge_time", "sum"), ("merges_total_count", "merge_count", "sum"),
    ("refresh_total_time", "refresh_time", "sum"), ("refresh_total_count", "refresh_count", "sum"),
    ("flush_total_time", "flush_time", "sum"), ("flush_total_count", "flush_count", "sum"),
    ("merges_total_throttled_time", "merge_throttle_time", "sum"),
    ("node_total_young_gen_gc_time", "young_gc_time", "sum"), ("node_total_young_gen_gc_count", "young_gc_count", "sum"),
    ("node_total_old_gen_gc_time", "old_gc_time", "sum"), ("node_total_old_gen_gc_count", "old_gc_count", "sum"),
    ("node_total_zgc_cycles_gc_time", "zgc_cycles_gc_time", "sum"), ("node_total_zgc_cycles_gc_count", "zgc_cycles_gc_count", "sum"),
    ("node_total_zgc_pauses_gc_time", "zgc_pauses_gc_time", "sum"), ("node_total_zgc_pauses_gc_count", "zgc_pauses_gc_count", "sum"),
    ("segments_memory_in_bytes", "memory_segments", "median"), ("segments_doc_values_memory_in_bytes", "memory_doc_values", "median"),
    ("segments_terms_memory_in_bytes", "memory_terms", "median"), ("segments_norms_memory_in_bytes", "memory_norms", "median"),
    ("segments_points_memory_in_bytes", "memory_points", "median"), ("segments_stored_fields_memory_in_bytes", "memory_stored_fields", "median"),
    ("dataset_size_in_bytes", "dataset_size", "sum"), ("store_size_in_bytes", "store_size", "sum"), ("translog_size_in_bytes", "translog_size", "sum"),
    ("segments_count", "segment_count", "int-median"),
    ("ingest_pipeline_cluster_count", "ingest_pipeline_cluster_count", "sum"), ("ingest_pipeline_cluster_time", "ingest_pipeline_cluster_time", "sum"),
    ("ingest_pipeline_cluster_failed", "ingest_pipeline_cluster_failed", "sum"),
]


PER_SHARD = {"indexing_total_time": "total_time_per_shard", "indexing_throttle_time": "indexing_throttle_time_per_shard",
             "merges_total_time": "merge_time_per_shard", "refresh_total_time": "refresh_time_per_shard", "flush_total_time": "flush_time_per_shard",
             "merges_total_throttled_time": "merge_throttle_time_per_shard"}


def global_cases(tier):
    """which cluster-level metrics are present (all, none, each one alone, all but each one) x how many values each has (1..3)"""
    n = len(GLOBAL_TABLE)
    yield ("all", tuple(range(n)), 2)
    yield ("all", tuple(range(n)), 1)
    yield ("all", tuple(range(n)), 3)
    yield ("none", (), 1)
    # no task is part of the report (every operation has include-in-reporting: false and no errors): the cluster-level metrics are all there is
    yield ("all", tuple(range(n)), 2, "no-reported-task")
    yield ("only", (0,), 1, "no-reported-task")
    for i in range(n):
        yield ("only", (i,), 2)
        yield ("all-but", tuple(j for j in range(n) if j != i), 2)
    if tier == "thorough":
        for i in range(n):
            for j in range(i + 1, n):
                yield ("pair", (i, j), 2)


def check_global(case, res):
    label, present, nvals = case[:3]
    unreported = len(case) > 3
    e = env()
    m = e["metrics"]
    import json

    from esrally.track import track

    v = None
    challenge = e["challenge"]
    if unreported:
        challenge = track.Challenge("c", default=True, schedule=[
            track.Task(name, track.Operation(opname, optype, params={"include-in-reporting": False}, param_source="driver-test-param-source")) for name, opname, optype in TASKS])
    try:
        store = build_store({0: [(1.0, True, True)], 1: [(2.0, True, True)]})
        want, want_shards = {}, {}
        for i in present:
            name, attr, agg = GLOBAL_TABLE[i]
            vals = [float(1000 * (i + 1) + 7 * k + (k * k)) for k in range(nvals)]
            per_shard_attr = PER_SHARD.get(name)
            shard_vals = []
            for k, val in enumerate(vals):
                if per_shard_attr:
                    # index-stats documents as the telemetry device writes them: total plus the per-shard values
                    shards = [val / 4.0, val / 4.0 + k + 1, val / 2.0 - k - 1]
                    shard_vals += shards
                    store.put_doc({"name": name, "value": val, "unit": "ms", "per-shard": shards}, level=m.MetaInfoScope.cluster,
                                  absolute_time=2000.0 + k, relative_time=float(k))
                else:
                    store.put_value_cluster_level(name, val, "x", absolute_time=2000.0 + k, relative_time=float(k))
            want[attr] = sum(vals) if agg == "sum" else (statistics.median(vals) if agg == "median" else int(statistics.median(vals)))
            if per_shard_attr:
                want_shards[per_shard_attr] = {"min": min(shard_vals), "median": statistics.median(shard_vals), "max": max(shard_vals), "unit": "ms"}
        race = m.Race("2.12.0", None, "verif", "verif-race", RACE_TS, "benchmark-only", {}, e["track"], {}, challenge, "defaults", {}, {})
        gs = m.calculate_results(store, race)
        if unreported and gs.op_metrics:
            v = ("unreported-task-in-results", f"{[o.get('task') for o in gs.op_metrics]}")
        for _name, attr, _agg in GLOBAL_TABLE:
            got = getattr(gs, attr)
            if attr in want:
                if got is None or not close(got, want[attr]):
                    v = ("global-metric-value", f"{attr}: result {got}, stored values give {want[attr]}")
            elif got is not None:
                v = ("global-metric-phantom", f"{attr}: result {got} although no such metric was recorded")
            if v:
                break
        for attr in PER_SHARD.values():
            got = getattr(gs, attr)
            w = want_shards.get(attr, {})
            if v is None and (set(got) != set(w) or any(got[k] != w[k] and not close(got[k], w[k]) for k in w if k != "unit") or got.get("unit") != w.get("unit")):
                v = ("per-shard-stats", f"{attr}: result {got}, per-shard values give {w}")
        if v is None:
            race.add_results(gs)
            fs = m.FileRaceStore(e["cfg"])
            fs.store_race(race)
            back = fs.find_by_race_id("verif-race")
            gb = m.GlobalStats(back.results)
            a, b = json.loads(json.dumps(vars(gs), default=str)), json.loads(json.dumps(vars(gb), default=str))
            diff = {k: (a.get(k), b.get(k)) for k in sorted(set(a) | set(b)) if a.get(k) != b.get(k)}
            if diff:
                k0 = next(iter(diff))
                v = ("roundtrip-global-metric", f"{k0}: computed {diff[k0][0]} read back {diff[k0][1]} ({len(diff)} attributes differ)")
            elif json.loads(json.dumps(gs.as_flat_list())) != json.loads(json.dumps(gb.as_flat_list())):
                v = ("roundtrip-flat-list", "flat lists differ")
    except Exception as ex:  # noqa
        import traceback

        v = ("raises", f"{type(ex).__name__}: {ex} @ {traceback.extract_tb(ex.__traceback__)[-1][:3]}")
    res.case(
        case_repr={"cluster_level_metrics": label, "present": [GLOBAL_TABLE[i][0] for i in present][:4], "values_per_metric": nvals, "tasks_in_report": not unreported} if res.sample_now(13) else None,
        nontrivial_key=("G", label, present, nvals, unreported) if present else None,
        outcome_key=("G", v[0] if v else "ok", len(present), nvals, unreported),
    )
    if v:
        res.violation(f"results:{v[0]}" + (":no-reported-task" if unreported else ""), f"cluster-level metrics {label} {[GLOBAL_TABLE[i][0] for i in present][:3]} x{nvals}" + (", no task in the report" if unreported else "") + f": {v[1]}",
                      {"global": [label, list(present), nvals] + (["no-reported-task"] if unreported else [])})


def structure_cases(tier):
    """race result structures: every combination of the optional parts of a race (named vs. auto-generated challenge, user tags, track /
    car / plugin parameters, car as a list, track revision, cluster details) x two record sets"""
    for bits in itertools.product((0, 1), repeat=8):
        for recs in ((0, 1) if tier == "thorough" else (sum(bits) % 2,)):
            yield ("structure", bits, recs)


def check_structure(case, res):
    _, bits, recs = case
    auto, tags, tparams, carlist, cparams, pparams, trev, cluster = bits
    e = env()
    m = e["metrics"]
    import json

    from esrally.track import track

    v = None
    try:
        records = {0: [(1.0, True, True), (3.0, True, False)], 1: [(2.0, True, True)]} if recs else {0: [(5.0, True, True)], 1: [(2.0, False, True), (4.0, True, True), (6.0, True, True)]}
        store = build_store(records)
        ch = track.Challenge("c", default=True, schedule=e["challenge"].schedule, auto_generated=bool(auto))
        race = m.Race(
            "2.12.0", "abc123" if trev else None, "verif", "verif-race", RACE_TS, "benchmark-only", {"name": "n", "k": "v"} if tags else {},
            e["track"], {"p": 1, "q": "x"} if tparams else {}, ch, ["4gheap", "ea"] if carlist else "defaults", {"heap": "4g"} if cparams else {},
            {"plug": True} if pparams else {}, track_revision="t0a1" if trev else None,
            team_revision="tm1" if cluster else None, distribution_version="8.11.0" if cluster else None,
            distribution_flavor="default" if cluster else None, revision="r3v" if cluster else None,
        )
        gs = m.calculate_results(store, race)
        race.add_results(gs)
        fs = m.FileRaceStore(e["cfg"])
        fs.store_race(race)
        # neighbours in the same races directory whose user-defined ids extend / are extended by this race's id, one older, one newer
        for nid, nts in (("verif-race-10", RACE_TS + datetime.timedelta(days=1)), ("verif-rac", RACE_TS - datetime.timedelta(days=1))):
            nb = m.Race("2.12.0", None, "verif", nid, nts, "benchmark-only", {}, e["track"], {}, ch, "defaults", {}, {})
            nb.add_results(m.calculate_results(build_store({0: [(77.0, True, True)], 1: [(99.0, True, True)]}), nb))
            # (every Rally process stores the race whose id its own configuration carries)
            from esrally import config as _config

            e["cfg"].add(_config.Scope.application, "system", "race.id", nid)
            try:
                fs.store_race(nb)
            finally:
                e["cfg"].add(_config.Scope.application, "system", "race.id", "verif-race")
        try:
            back = fs.find_by_race_id("verif-race")
        except Exception as ex:  # noqa
            back = None
            v = ("stored-race-not-readable", f"{type(ex).__name__}: {ex}")
        if back is not None:
            listed = [r for r in fs.list() if r.race_id == "verif-race"]
            if len(listed) != 1:
                v = ("stored-race-not-listed", f"list races returns {len(listed)} entries for the stored race")
        if back is not None and v is None:
            want = {
                "race_id": race.race_id, "race_timestamp": race.race_timestamp, "rally_version": race.rally_version, "rally_revision": race.rally_revision,
                "environment_name": race.environment_name, "pipeline": race.pipeline, "user_tags": race.user_tags, "track": race.track_name,
                "challenge_name": None if auto else "c", "car": race.car, "car_name": race.car_name, "track_params": race.track_params or None,
                "car_params": race.car_params or None, "plugin_params": race.plugin_params or None, "track_revision": race.track_revision,
                "team_revision": race.team_revision, "distribution_version": race.distribution_version,
                "distribution_flavor": race.distribution_flavor, "revision": race.revision,
            }
            for k, w in want.items():
                got = getattr(back, k)
                if k.endswith("_params"):
                    got = got or None
                if got != w:
                    v = ("roundtrip-race-attribute", f"{k}: stored {w!r}, read back {got!r}")
                    break
            if v is None:
                gb = m.GlobalStats(back.results)
                if json.loads(json.dumps(gs.as_flat_list())) != json.loads(json.dumps(gb.as_flat_list())):
                    v = ("roundtrip-flat-list", "flat lists differ")
                for name, _o, _t in TASKS:
                    if v is None and json.loads(json.dumps(gs.metrics(name))) != gb.metrics(name):
                        v = ("roundtrip-task-metrics", f"task {name}: computed {gs.metrics(name)} read back {gb.metrics(name)}")
    except Exception as ex:  # noqa
        import traceback

        v = ("raises", f"{type(ex).__name__}: {ex} @ {traceback.extract_tb(ex.__traceback__)[-1][:3]}")
    names = ("auto-generated-challenge", "user-tags", "track-params", "car-list", "car-params", "plugin-params", "revisions", "cluster-details")
    present = [n for n, b in zip(names, bits) if b]
    res.case(
        case_repr={"race_structure": present, "records": recs} if res.sample_now(17) else None,
        nontrivial_key=("R", bits, recs),
        outcome_key=("R", v[0] if v else "ok", sum(bits)),
    )
    if v:
        res.violation(f"results:{v[0]}" + (":auto-generated-challenge" if auto else ""), f"race with {present or 'no optional parts'}: {v[1]}", {"structure": [list(bits), recs]})


def _shard(arg):
    import logging

    logging.disable(logging.CRITICAL)
    kind, items = arg
    res = Result()
    for i, it in enumerate(items):
        if kind == "global":
            check_global(it, res)
        elif kind == "structure":
            check_structure(it, res)
        elif kind == "small":
            check_case(it, res, roundtrip=(i % 4 == 0))
        else:
            check_case(it[1], res, roundtrip=True)
    return res


def run(tier, seed):
    small = list(small_cases(tier))
    big = list(boundary_cases(tier))
    jobs = [("small", ch) for ch in par.chunks(small, par.NPROC * 3)] + [("big", [b]) for b in big]
    gl = list(global_cases(tier))
    jobs += [("global", ch) for ch in par.chunks(gl, par.NPROC)]
    st = list(structure_cases(tier))
    jobs += [("structure", ch) for ch in par.chunks(st, par.NPROC)]
    res = par.pmap(_shard, jobs, seed=seed)
    res.extra["race_structures"] = len(st)
    res.extra["cluster_level_cases"] = len(gl)
    res.extra["small_multisets"] = len(small)
    res.extra["boundary_streams"] = len(big)
    res.states = res.evaluations
    res.transitions = res.evaluations
    return res


def replay(data):
    import logging

    logging.disable(logging.CRITICAL)
    res = Result()
    if data.get("global"):
        g = data["global"]
        check_global((g[0], tuple(g[1]), g[2]) + tuple(g[3:]), res)
    elif data.get("structure"):
        check_structure(("structure", tuple(data["structure"][0]), data["structure"][1]), res)
    elif data.get("structured"):
        for spec, recs in boundary_cases("thorough"):
            if {str(k): len(r) for k, r in recs.items()} == data["sizes"]:
                check_case(recs, res, True)
    else:
        records = {int(k): [tuple(r) for r in recs] for k, recs in data["records"].items()}
        check_case(records, res, True)
    return [v for lst in res.violations.values() for v in lst]
