"""C14 -- corpus preparation ends with complete, verified data or an explicit error.

Fault enumeration and crash-point enumeration on the real DocumentSetPreparator / Downloader / Decompressor / net.download /
io.decompress / io.prepare_file_offset_table / io.skip_lines over a scripted HTTP endpoint (net._request) and real files on a
scratch directory:
 L1  initial states of document file and archive x formats x declared/undeclared sizes x offline x base-url x words of
     download outcomes (all short words + the retry-budget boundary);
 L2  every crash point (each write, torn writes, rename, remove) of a first run, followed by a second run on the snapshot;
 L3  offset tables on a 100,001-line file: absent / valid / stale / torn, and crash points of the table build;
 L4  bundled document sets (prepare_bundled_document_set): initial states x formats x sizes.
"""
import builtins
import bz2
import gzip
import io as pyio
import itertools
import os
import shutil
import tempfile
import time as _t
import zipfile

from mc import vclock

vclock.install()

from mc import par  # noqa: E402
from mc.core import Result  # noqa: E402
from mc.vclock import CLOCK  # noqa: E402

ID = "C14"
LEVEL = "fault_enumeration"
RULE = (
    "L1: document file {absent, correct, truncated, too long} x archive {absent, correct, truncated, corrupt with right size} x format "
    "{none, bz2, gz, zst, zip} x sizes {declared, undeclared} x {online, offline} x base-url {present, absent} x download-outcome words "
    "over {ok, 404, 500, protocol error before/inside the body, read time-out, complete body of another length}: all words of length <= 2 "
    "(thorough 3) plus k protocol errors then ok for k in 9..11; L2: every I/O step of a first run (every write, 3 torn offsets per write, "
    "rename, remove) as crash point, second run on the snapshot; L3: offset-table states and crash points on a 100,001-line file; L4: bundled "
    "document sets: document x archive x format x sizes; L5: external decompressor tools as environment {ok, dies midway, dies inside the "
    "last line, fails immediately} x format x sizes x archive; a failed L1 run is followed by a second run on what it left behind; L6: a whole challenge over three corpora (which ones it uses x "
    "preparation tasks collected first, as the driver does, or run one at a time x formats) through DefaultTrackPreparator; L7: a declared uncompressed size that the intact archive does not decompress to (+-12 bytes) x format x document x online/offline: explicit error within the I/O-step horizon; L8: --track-path mode, a corpus of three document sets, every placement of each (bundled plain, bundled archive, to be downloaded); L9: base-url s3:// and gs:// through net.download_from_bucket with stand-in SDK modules: scheme x format x sizes x document/archive before x bucket answers {ok, ok in 3 chunks, error before/inside the object, object of another length, missing object, credentials error} + every crash point of a chunked download, each failure followed by a healthy second run. L2 also starts from non-initial states (truncated / too long document, truncated archive, truncated document next to a correct archive). "
    "non-trivial = a fault, a crash or a non-empty initial state; distinct = the configuration"
)
ASSUMPTIONS = [
    "crash = process kill: the directory tree as it is at an I/O step boundary (or inside a write); no power-loss reordering; buffered data that "
    "Python has not yet handed to the OS is modelled by making every write of the code under test unbuffered",
    "HTTP endpoint = scripted net._request (status, Content-Length, stream() raising urllib3 ProtocolError / ReadTimeoutError, "
    "enforce_content_length as in urllib3: a short body is a ProtocolError); S3/GCS: boto3 and the Google libraries are optional extras that are not installed, L9 puts stand-ins into sys.modules that answer the calls net.py makes (s3transfer semantics: temporary name + rename, nothing left on failure; ChunkedDownload writes chunk by chunk into the stream Rally opened); io.is_executable answers False "
    "(library decompression) except in layer L5 where the external tool is a scripted subprocess.run, so that the result does not depend "
    "on which tools are installed",
    "a document file that pre-exists with the right size but other content is outside the statement (Rally has no checksums)",
]

DOC = b"".join(b'{"id": %d, "text": "line %d \xc3\xa9"}\n' % (i, i) for i in range(5))
OTHER = b'{"id": 99}\n' * 3
_S = {}


class Crash(BaseException):
    pass


def scratch():
    if _S.get("pid") != os.getpid():
        _S.clear()
        _S["dir"] = tempfile.mkdtemp(prefix="verif-c14-")
        _S["pid"] = os.getpid()
        _S["n"] = 0
        import atexit

        d = _S["dir"]
        atexit.register(lambda: shutil.rmtree(d, ignore_errors=True))
    return _S["dir"]


def compress(fmt, data, name="docs.json"):
    if fmt == "bz2":
        return bz2.compress(data)
    if fmt == "gz":
        return gzip.compress(data, mtime=0)
    if fmt == "zst":
        import zstandard

        return zstandard.ZstdCompressor().compress(data)
    if fmt == "zip":
        b = pyio.BytesIO()
        with zipfile.ZipFile(b, "w", zipfile.ZIP_DEFLATED) as z:
            z.writestr(zipfile.ZipInfo(name, date_time=(2020, 1, 1, 0, 0, 0)), data)
        return b.getvalue()
    raise ValueError(fmt)


# ------------------------------------------------------------------------------------------------ environment: HTTP


class FakeResponse:
    def __init__(self, kind, body):
        self.kind = kind
        self.body = body
        self.status = {"404": 404, "500": 500}.get(kind, 200)

    def __enter__(self):
        return self

    def __exit__(self, *a):
        return False

    def getheader(self, name, default=None):
        if name.lower() == "content-length" and self.status == 200:
            return str(len(self.body))
        return default

    def stream(self, chunk_size):
        import urllib3

        if self.kind == "proto-before":
            raise urllib3.exceptions.ProtocolError("Connection broken before the first chunk")
        half = max(1, len(self.body) // 2)
        if self.kind in ("proto-mid", "timeout-mid"):
            yield self.body[:half]
            if self.kind == "proto-mid":
                raise urllib3.exceptions.ProtocolError("Connection broken: IncompleteRead")
            raise urllib3.exceptions.ReadTimeoutError(None, "http://x", "Read timed out.")
        for i in range(0, len(self.body), 7):
            yield self.body[i : i + 7]


class Endpoint:
    def __init__(self, word, published, limit=60):
        self.word = list(word)
        self.published = published
        self.requests = []
        self.limit = limit

    def __call__(self, method, url, **kw):
        i = len(self.requests)
        self.requests.append(url)
        if i >= self.limit:
            raise RuntimeError("download loop does not terminate")
        kind = self.word[i] if i < len(self.word) else "ok"
        body = OTHER if kind == "wrong-length" else self.published
        return FakeResponse(kind, body)


# ------------------------------------------------------------------------------------------------ environment: file system steps


class NoTermination(BaseException):
    pass


class StepCounter:
    def __init__(self, root, crash_at=None, torn=None, on_crash=None):
        self.root = root
        self.crash_at = crash_at
        self.torn = torn
        self.on_crash = on_crash
        self.n = 0
        self.log = []

    LIMIT = 20000

    def step(self, what, write=None):
        """returns how many bytes of a write may be performed before the crash (None = all)"""
        k = self.n
        self.n += 1
        self.log.append(what)
        if self.n > self.LIMIT:
            # horizon: a preparation that keeps doing I/O (e.g. decompressing the same archive again and again) does not terminate
            raise NoTermination(f"preparation does not terminate: more than {self.LIMIT} I/O steps")
        if self.crash_at is not None and k == self.crash_at:
            return "crash"
        return None


class WriteProxy:
    def __init__(self, f, path, counter, text):
        self._f, self._path, self._c, self._text = f, path, counter, text

    def write(self, data):
        r = self._c.step(("write", os.path.basename(self._path), len(data)))
        if r == "crash":
            raw = data.encode("utf-8") if isinstance(data, str) else bytes(data)
            cut = {"none": 0, "one": 1, "half": len(raw) // 2, "last": max(0, len(raw) - 1)}[self._c.torn or "none"]
            self._f.write(raw[:cut])
            self._f.flush()
            self._c.on_crash()
            raise Crash()
        raw = data.encode("utf-8") if isinstance(data, str) else data
        self._f.write(raw)
        return len(data)

    def writelines(self, lines):
        for l in lines:
            self.write(l)

    def flush(self):
        self._f.flush()

    def close(self):
        self._f.close()

    def fileno(self):
        return self._f.fileno()

    def tell(self):
        return self._f.tell()

    def __enter__(self):
        return self

    def __exit__(self, *a):
        self._f.close()
        return False

    def __getattr__(self, name):
        return getattr(self._f, name)


class FsHooks:
    """makes every write of the code under test below `root` an observable, unbuffered I/O step"""

    def __init__(self, counter):
        self.c = counter
        self.real_open = builtins.open
        self.real_rename = os.rename
        self.real_remove = os.remove
        self.real_replace = os.replace

    def __enter__(self):
        c = self.c
        real_open = self.real_open

        def open_(file, mode="r", *a, **k):
            if isinstance(file, str) and file.startswith(c.root) and any(ch in mode for ch in "wa+x"):
                f = real_open(file, mode.replace("t", "") if "b" in mode else mode.replace("t", "") + "b", buffering=0)
                return WriteProxy(f, file, c, "b" not in mode)
            return real_open(file, mode, *a, **k)

        def rename(src, dst, *a, **k):
            if str(src).startswith(c.root) and c.step(("rename", os.path.basename(src), os.path.basename(dst))) == "crash":
                c.on_crash()
                raise Crash()
            return self.real_rename(src, dst, *a, **k)

        def remove(p, *a, **k):
            if str(p).startswith(c.root) and c.step(("remove", os.path.basename(p))) == "crash":
                c.on_crash()
                raise Crash()
            return self.real_remove(p, *a, **k)

        def replace(src, dst, *a, **k):
            if str(src).startswith(c.root) and c.step(("rename", os.path.basename(src), os.path.basename(dst))) == "crash":
                c.on_crash()
                raise Crash()
            return self.real_replace(src, dst, *a, **k)

        builtins.open = open_
        os.rename = rename
        os.remove = remove
        os.replace = replace
        return self

    def __exit__(self, *a):
        builtins.open = self.real_open
        os.rename = self.real_rename
        os.remove = self.real_remove
        os.replace = self.real_replace
        return False


# ------------------------------------------------------------------------------------------------ running the preparator


def setup():
    if "ready" in _S:
        return
    import logging

    logging.disable(logging.CRITICAL)
    from esrally.utils import console
    from esrally.utils import io as rio

    console.init(quiet=True)
    rio.is_executable = lambda name: False
    _S["ready"] = True


def docset(fmt, declared, base_url, nlines=5, doc=DOC, archive=None):
    from esrally.track import track

    name = "docs.json"
    arch = f"{name}.{fmt}" if fmt else None
    if os.environ.get("VERIF_C14_DIRECT_DOCSETS") != "1":
        # the document set is what the real TrackSpecificationReader makes of the corpus description in the track file
        from esrally.track import loader

        d = {"source-file": arch or name, "document-count": nlines, "target-index": "idx"}
        if base_url:
            d["base-url"] = "http://example.org/corpora"
        if declared:
            d["uncompressed-bytes"] = len(doc)
            if archive is not None:
                d["compressed-bytes"] = len(archive)
        spec = {"description": "verif", "indices": [{"name": "idx"}], "corpora": [{"name": "c", "documents": [d]}],
                "schedule": [{"operation": {"operation-type": "bulk", "bulk-size": 100}}]}
        trk = loader.TrackSpecificationReader()("verif", spec, "/nonexistent-mapping-dir")
        return trk.corpora[0].documents[0]
    return track.Documents(
        track.Documents.SOURCE_FORMAT_BULK,
        document_file=name,
        document_archive=arch,
        base_url="http://example.org/corpora" if base_url else None,
        number_of_documents=nlines,
        compressed_size_in_bytes=len(archive) if (declared and archive is not None) else None,
        uncompressed_size_in_bytes=len(doc) if declared else None,
        target_index="idx",
    )


def prepare(root, ds, endpoint, offline, counter=None):
    """returns ('returned', None) | ('raised', exc)"""
    from esrally.track import loader
    from esrally.utils import net

    net._request = endpoint
    prep = loader.DocumentSetPreparator("verif", loader.Downloader(offline, test_mode=False), loader.Decompressor())
    CLOCK.start()
    try:
        if counter is None:
            counter = StepCounter(root)
        with FsHooks(counter):
            try:
                prep.prepare_document_set(ds, root)
                return ("returned", None)
            except Crash:
                return ("crashed", None)
            except NoTermination as e:
                return ("hangs", e)
            except Exception as e:  # noqa
                return ("raised", e)
    finally:
        CLOCK.stop()


def good_state(root, ds, doc=DOC):
    """None or (clause, message)"""
    from esrally.utils import io as rio

    p = os.path.join(root, ds.document_file)
    if not os.path.isfile(p):
        return ("document-missing", f"{p} does not exist")
    data = open(p, "rb").read()
    if ds.uncompressed_size_in_bytes is not None and len(data) != ds.uncompressed_size_in_bytes:
        return ("document-wrong-size", f"{len(data)} bytes, declared {ds.uncompressed_size_in_bytes}")
    if data != doc:
        if len(data) < len(doc) and doc.startswith(data):
            return ("document-truncated", f"document has {len(data)} of {len(doc)} bytes")
        return ("document-wrong-content", f"document differs from the published content ({len(data)} vs {len(doc)} bytes)")
    ot = p + ".offset"
    if not os.path.isfile(ot):
        return ("offset-table-missing", f"{ot} does not exist")
    # positions through the real skip_lines equal naive skipping
    nlines = doc.count(b"\n")
    probes = sorted({0, 1, nlines // 2, nlines - 1} | ({49999, 50000, 50001, 100000} if nlines > 100000 else set()))
    for n in probes:
        with open(p, "rb") as f:
            try:
                rio.skip_lines(p, f, n)
                got = f.tell()
            except Exception as e:  # noqa
                return ("offset-table-unreadable", f"skip_lines({n}) raised {type(e).__name__}: {e}")
        want = 0
        for _ in range(n):
            want = doc.index(b"\n", want) + 1
        if got != want:
            return ("offset-table-wrong-position", f"skip_lines({n}) positions the reader at byte {got}, line {n} starts at byte {want}")
    return None


def partial_under_final_name(root, ds, initial, published_doc, published_archive, declared=False):
    """the download target holds its initial content or the complete file (a complete response of another length only if the track
    declares no size to compare with)"""
    target = ds.document_archive if ds.document_archive else ds.document_file
    p = os.path.join(root, target)
    if not os.path.exists(p):
        return None
    data = open(p, "rb").read()
    complete = published_archive if ds.document_archive else published_doc
    if data == complete or data == initial.get(target) or (data == OTHER and not declared):
        return None
    if data == OTHER:
        return ("wrong-sized-download-under-final-name", f"{target} holds {len(data)} bytes (a complete response of the wrong length) although the track declares {len(complete)} bytes")
    return ("partial-download-under-final-name", f"{target} holds {len(data)} bytes: neither its initial content ({len(initial.get(target) or b'')} bytes) nor the complete file ({len(complete)} bytes)")


def new_root():
    _S["n"] = _S.get("n", 0) + 1
    d = os.path.join(scratch(), f"r{_S['n']}")
    os.makedirs(d)
    return d


def populate(root, fmt, doc_state, arch_state, archive):
    initial = {}
    if doc_state != "absent":
        data = {"correct": DOC, "truncated": DOC[: len(DOC) // 2], "long": DOC + b'{"extra": 1}\n'}[doc_state]
        open(os.path.join(root, "docs.json"), "wb").write(data)
        initial["docs.json"] = data
    if fmt and arch_state != "absent":
        a = archive
        data = {"correct": a, "truncated": a[: len(a) // 2], "corrupt": a[: len(a) // 2] + bytes((b ^ 0x55) for b in a[len(a) // 2 : len(a) // 2 + 4]) + a[len(a) // 2 + 4 :]}[arch_state]
        open(os.path.join(root, f"docs.json.{fmt}"), "wb").write(data)
        initial[f"docs.json.{fmt}"] = data
    return initial


# ------------------------------------------------------------------------------------------------ L1

OUTCOMES = ["ok", "404", "500", "proto-before", "proto-mid", "timeout-mid", "wrong-length"]


def l1_cases(tier):
    maxlen = 2 if tier == "quick" else 3
    words = [()] + [w for n in range(1, maxlen + 1) for w in itertools.product(OUTCOMES, repeat=n)]
    words += [("proto-mid",) * k for k in (9, 10, 11)] + [("timeout-mid",) * 10 + ("proto-before",), ("proto-before",) * 10 + ("404",)]
    for fmt in (None, "bz2", "gz", "zst", "zip"):
        for declared in (True, False):
            for doc_state in ("absent", "correct", "truncated", "long"):
                for arch_state in (("absent", "correct", "truncated", "corrupt") if fmt else ("absent",)):
                    for offline, base_url in ((False, True), (True, True), (False, False)):
                        ws = words if (not offline and base_url) else [()]
                        if tier == "quick" and fmt in ("gz", "zst", "zip"):
                            ws = [w for w in ws if len(w) <= 1 or len(w) >= 9]
                        for w in ws:
                            yield (fmt, declared, doc_state, arch_state, offline, base_url, w)


def l1_check(case, res):
    setup()
    fmt, declared, doc_state, arch_state, offline, base_url, word = case
    archive = compress(fmt, DOC) if fmt else None
    root = new_root()
    v = None
    try:
        initial = populate(root, fmt, doc_state, arch_state, archive)
        ds = docset(fmt, declared, base_url, archive=archive)
        ep = Endpoint(word, archive if fmt else DOC)
        outcome, exc = prepare(root, ds, ep, offline)
        nreq = len(ep.requests)
        if exc is not None and "does not terminate" in str(exc):
            v = ("no-termination", f"more than {ep.limit} download requests")
        elif outcome == "returned":
            # undeclared sizes: a truncated / too long local document cannot be told from the published one by size; line count decides
            g = good_state(root, ds)
            if g:
                v = (f"returned-but-{g[0]}", g[1])
        else:
            if not isinstance(exc, Exception):
                v = ("no-explicit-error", f"{outcome}")
        if v is None:
            v = partial_under_final_name(root, ds, initial, DOC, archive, declared)
        if v is None and outcome == "raised":
            # liveness anchors: a healthy environment must lead to success
            healthy_local = doc_state == "correct" or (fmt and arch_state == "correct" and doc_state == "absent")
            all_ok = all(k == "ok" for k in word) or (set(word) <= {"proto-mid", "timeout-mid", "proto-before", "ok"} and sum(1 for k in word if k != "ok") <= 10 and not any(k == "ok" for k in word[:-1]))
            can_download = not offline and base_url
            needs_download = not healthy_local
            recoverable_local = doc_state in ("absent", "truncated", "long") and (declared or doc_state == "absent") and (not fmt or arch_state in ("absent", "correct") or (declared and arch_state in ("truncated",)))
            if healthy_local and declared:
                v = ("healthy-local-state-rejected", f"{type(exc).__name__}: {str(exc)[:200]}")
            elif needs_download and can_download and all_ok and recoverable_local and declared:
                v = ("healthy-download-fails", f"{type(exc).__name__}: {str(exc)[:200]} after {nreq} requests")
        if v is None and outcome == "returned" and doc_state == "correct" and declared and nreq:
            v = ("needless-download", f"{nreq} requests although the document was present and correct")
        if v is None and outcome == "raised" and len(word) <= 1:
            # history: the user simply runs Rally again on what the failed run left behind (healthy network this time)
            ep2 = Endpoint((), archive if fmt else DOC)
            outcome2, exc2 = prepare(root, ds, ep2, offline)
            if outcome2 == "returned":
                g = good_state(root, ds)
                if g:
                    v = (f"second-run-returned-but-{g[0]}", f"first run raised {type(exc).__name__}, the second run returned: {g[1]}")
            elif not isinstance(exc2, Exception):
                v = ("second-run-no-explicit-error", f"{outcome2}")
    finally:
        shutil.rmtree(root, ignore_errors=True)
    res.case(
        case_repr={"format": fmt, "sizes_declared": declared, "document": doc_state, "archive": arch_state, "offline": offline, "base_url": base_url,
                   "download_outcomes": list(word), "result": outcome, "error": type(exc).__name__ if exc else None}
        if res.sample_now(4999)
        else None,
        nontrivial_key=("L1", case) if word or doc_state != "absent" or arch_state != "absent" else None,
        outcome_key=("L1", outcome, type(exc).__name__ if exc else None, v[0] if v else "ok"),
    )
    if v:
        res.violation(f"prepare:{v[0]}:{fmt or 'plain'}" + ("" if declared else ":sizes-undeclared"),
                      f"format={fmt} declared={declared} doc={doc_state} archive={arch_state} offline={offline} base_url={base_url} downloads={list(word)}: {v[1]}",
                      {"layer": 1, "case": [fmt, declared, doc_state, arch_state, offline, base_url, list(word)]})


# ------------------------------------------------------------------------------------------------ L2 crash points


def l2_cases(tier):
    for fmt in (None, "bz2") + (("gz", "zip") if tier == "thorough" else ()):
        for declared in (True, False):
            for first_word in ((), ("proto-mid",)):
                yield (fmt, declared, first_word)
            # non-initial states: what an earlier, interrupted run may have left behind (first run on a healthy network)
            for doc_state, arch_state in (("truncated", "absent"), ("long", "absent")) + ((("absent", "truncated"), ("truncated", "correct")) if fmt else ()):
                yield (fmt, declared, (), doc_state, arch_state)


def l2_check(case, res):
    setup()
    fmt, declared, first_word = case[:3]
    doc_state, arch_state = case[3:] if len(case) > 3 else ("absent", "absent")
    archive = compress(fmt, DOC) if fmt else None
    ds = docset(fmt, declared, True, archive=archive)
    # count the I/O steps of an uninterrupted first run
    root = new_root()
    populate(root, fmt, doc_state, arch_state, archive)
    c0 = StepCounter(root)
    prepare(root, ds, Endpoint(first_word, archive if fmt else DOC), False, c0)
    shutil.rmtree(root, ignore_errors=True)
    total = c0.n
    for k in range(total):
        kinds = ["none"] if c0.log[k][0] != "write" else (["none", "one", "half", "last"] if c0.log[k][2] > 2 else ["none", "one"])
        for torn in kinds:
            root = new_root()
            snap = root + "-snap"
            v = None
            try:
                def on_crash():
                    shutil.copytree(root, snap)

                initial = populate(root, fmt, doc_state, arch_state, archive)
                c = StepCounter(root, crash_at=k, torn=torn, on_crash=on_crash)
                outcome, _ = prepare(root, ds, Endpoint(first_word, archive if fmt else DOC), False, c)
                # the kill is modelled by the snapshot taken at the crash point; what the unwinding exception turns into in the live
                # process (zip extraction wraps every BaseException in a RuntimeError) is irrelevant
                if not os.path.isdir(snap):
                    v = ("crash-not-injected", f"step {k} {c0.log[k]}: {outcome}")
                else:
                    v = partial_under_final_name(snap, ds, initial, DOC, archive)
                    if v is None:
                        # the next run starts on what the killed process left behind
                        outcome2, exc2 = prepare(snap, ds, Endpoint((), archive if fmt else DOC), False)
                        if outcome2 == "returned":
                            g = good_state(snap, ds)
                            if g:
                                v = (f"after-crash-returned-but-{g[0]}", g[1])
                        elif not isinstance(exc2, Exception):
                            v = ("after-crash-no-explicit-error", f"{outcome2}")
            finally:
                shutil.rmtree(root, ignore_errors=True)
                shutil.rmtree(snap, ignore_errors=True)
            res.case(
                case_repr={"format": fmt, "sizes_declared": declared, "first_run_downloads": list(first_word), "document_before": doc_state, "archive_before": arch_state, "crash_at_step": k, "step": list(map(str, c0.log[k])), "torn": torn}
                if res.sample_now(211)
                else None,
                nontrivial_key=("L2", case, k, torn),
                outcome_key=("L2", c0.log[k][0], torn, v[0] if v else "ok"),
            )
            if v:
                what = c0.log[k][1] if len(c0.log[k]) > 1 else ""
                res.violation(
                    f"prepare:{v[0]}:crash-in-{c0.log[k][0]}-of-{'offset-table' if str(what).endswith('.offset') else ('document' if what == 'docs.json' else 'download')}" + ("" if declared else ":sizes-undeclared"),
                    f"format={fmt} declared={declared} first-run downloads={list(first_word)} before: document {doc_state}, archive {arch_state}; crash at step {k} {c0.log[k]} torn={torn}: {v[1]}",
                    {"layer": 2, "case": [fmt, declared, list(first_word), doc_state, arch_state], "k": k, "torn": torn},
                )


# ------------------------------------------------------------------------------------------------ L3 offset tables on a large file


def big_doc():
    if "big" not in _S:
        _S["big"] = b"".join(b'{"n": %d, "t": "\xc3\xa9\xe6\xbc\xa2"}\n' % i for i in range(100001))
    return _S["big"]


def l3_check(state, res):
    setup()
    big = big_doc()
    from esrally.track import track

    ds = track.Documents(track.Documents.SOURCE_FORMAT_BULK, document_file="docs.json", number_of_documents=100001, uncompressed_size_in_bytes=len(big), target_index="idx")
    root = new_root()
    v = None
    p = os.path.join(root, "docs.json")
    ot = p + ".offset"
    try:
        open(p, "wb").write(big)
        now = _t.time()
        os.utime(p, (now - 100, now - 100))
        crash_desc = None
        if state == "absent":
            pass
        elif state == "valid":
            prepare(root, ds, Endpoint((), big), False)
        elif state == "stale-older-than-data":
            open(ot, "w").write("50000;17\n100000;99\n")
            os.utime(ot, (now - 500, now - 500))
        elif state == "stale-newer-than-data":
            # e.g. left behind by an interrupted build: newer than the data file, content incomplete or from another file
            open(ot, "w").write("50000;17\n")
        elif state.startswith("crash@"):
            k, torn = state[6:].split(":")
            snap = root + "-snap"

            def on_crash():
                shutil.copytree(root, snap)

            c = StepCounter(root, crash_at=int(k), torn=torn, on_crash=on_crash)
            outcome, _ = prepare(root, ds, Endpoint((), big), False, c)
            if not os.path.isdir(snap):
                crash_desc = "no-crash"
            else:
                shutil.rmtree(root)
                os.rename(snap, root)
                crash_desc = str(c.log[int(k)])
        if crash_desc != "no-crash":
            outcome, exc = prepare(root, ds, Endpoint((), big), False)
            if outcome == "returned":
                g = good_state(root, ds, doc=big)
                if g:
                    v = (f"returned-but-{g[0]}", g[1])
            elif not isinstance(exc, Exception):
                v = ("no-explicit-error", str(outcome))
            elif state in ("absent", "valid", "stale-older-than-data"):
                v = ("healthy-local-state-rejected", f"{type(exc).__name__}: {str(exc)[:200]}")
    finally:
        shutil.rmtree(root, ignore_errors=True)
        shutil.rmtree(root + "-snap", ignore_errors=True)
    res.case(
        case_repr={"offset_table_state": state, "lines": 100001} if res.sample_now(7) else None,
        nontrivial_key=("L3", state),
        outcome_key=("L3", state.split("@")[0], v[0] if v else "ok"),
    )
    if v:
        cls = "crash-during-table-build" if state.startswith("crash@") else state
        res.violation(f"prepare:{v[0]}:offset-table:{cls}", f"offset table state {state}: {v[1]}", {"layer": 3, "state": state})


def l3_states():
    out = ["absent", "valid", "stale-older-than-data", "stale-newer-than-data"]
    # the table build of a 100,001-line file issues 4 writes (two lines, print() = text + newline)
    for k in range(0, 5):
        for torn in ("none", "one", "half", "last"):
            if k == 4 and torn != "none":
                continue
            out.append(f"crash@{k}:{torn}")
    return out


# ------------------------------------------------------------------------------------------------ L4 bundled document sets


def l4_cases():
    for fmt in (None, "bz2", "gz", "zst", "zip"):
        for declared in (True, False):
            for doc_state in ("absent", "correct", "truncated", "long"):
                for arch_state in (("absent", "correct", "truncated", "corrupt") if fmt else ("absent",)):
                    yield (fmt, declared, doc_state, arch_state)


def l4_check(case, res):
    """prepare_bundled_document_set: True -> complete verified data; False only if nothing usable is there; never a download"""
    setup()
    from esrally.track import loader
    from esrally.utils import net

    fmt, declared, doc_state, arch_state = case
    archive = compress(fmt, DOC) if fmt else None
    root = new_root()
    v = None
    try:
        populate(root, fmt, doc_state, arch_state, archive)
        ds = docset(fmt, declared, True, archive=archive)
        ep = Endpoint((), archive if fmt else DOC)
        net._request = ep
        prep = loader.DocumentSetPreparator("verif", loader.Downloader(False, test_mode=False), loader.Decompressor())
        try:
            with FsHooks(StepCounter(root)):
                r = prep.prepare_bundled_document_set(ds, root)
            exc = None
        except Exception as e:  # noqa
            r, exc = None, e
        if ep.requests:
            v = ("bundled-set-downloads", f"{len(ep.requests)} download requests for a bundled document set")
        elif exc is None and r is True:
            g = good_state(root, ds)
            if g:
                v = (f"bundled-returned-true-but-{g[0]}", g[1])
        elif exc is None and r is False:
            usable = doc_state != "absent" or (fmt and arch_state != "absent")
            if usable:
                v = ("bundled-returned-false-although-files-present", f"doc={doc_state} archive={arch_state}")
        elif exc is None:
            v = ("bundled-no-verdict", f"returned {r!r}")
        else:
            healthy = doc_state == "correct" or (fmt and arch_state == "correct" and doc_state == "absent")
            if healthy:
                v = ("healthy-local-state-rejected", f"{type(exc).__name__}: {str(exc)[:200]}")
    finally:
        shutil.rmtree(root, ignore_errors=True)
    res.case(
        case_repr={"bundled": True, "format": fmt, "sizes_declared": declared, "document": doc_state, "archive": arch_state} if res.sample_now(53) else None,
        nontrivial_key=("L4", case) if doc_state != "absent" or arch_state != "absent" else None,
        outcome_key=("L4", repr(r), type(exc).__name__ if exc else None, v[0] if v else "ok"),
    )
    if v:
        res.violation(f"prepare:{v[0]}:{fmt or 'plain'}" + ("" if declared else ":sizes-undeclared"),
                      f"bundled set format={fmt} declared={declared} doc={doc_state} archive={arch_state}: {v[1]}", {"layer": 4, "case": list(case)})


# ------------------------------------------------------------------------------------------------ L5 external decompressor tools


def l5_cases():
    for fmt in ("bz2", "gz", "zst"):
        for declared in (True, False):
            for tool in ("ok", "dies-midway", "dies-inside-last-line", "fails-immediately", "wrong-output-exit-0"):
                for arch_state in ("correct", "corrupt"):
                    yield (fmt, declared, tool, arch_state)


def l5_check(case, res):
    """pbzip2 / pigz / pzstd as environment: the tool may succeed, die after writing part of its output, or fail right away"""
    setup()
    import subprocess

    from esrally.utils import io as rio

    fmt, declared, tool, arch_state = case
    archive = compress(fmt, DOC)
    root = new_root()
    v = None
    calls = []
    real_run = subprocess.run

    def fake_run(args, stdout=None, stderr=None, check=False, **kw):
        calls.append(list(args))
        out = {"ok": DOC, "dies-midway": DOC[: len(DOC) // 2], "dies-inside-last-line": DOC[:-9], "fails-immediately": b"", "wrong-output-exit-0": DOC}[tool]
        rc = 0 if tool in ("ok", "wrong-output-exit-0") else 1
        if arch_state == "corrupt" and tool == "ok":
            out, rc = DOC[:40], 2  # a real tool notices the corruption
        if stdout is not None:
            stdout.write(out)
        if rc and check:
            raise subprocess.CalledProcessError(rc, args, stderr=b"injected tool failure")
        return subprocess.CompletedProcess(args, rc, stderr=b"")

    try:
        populate(root, fmt, "absent", arch_state, archive)
        ds = docset(fmt, declared, True, archive=archive)
        rio.is_executable = lambda name: True
        subprocess.run = fake_run
        try:
            outcome, exc = prepare(root, ds, Endpoint((), archive), False)
        finally:
            subprocess.run = real_run
            rio.is_executable = lambda name: False
        if not calls:
            v = ("external-tool-not-used", "is_executable answered True but no tool was run")
        elif outcome == "returned":
            g = good_state(root, ds)
            if g:
                v = (f"returned-but-{g[0]}", g[1])
        elif not isinstance(exc, Exception):
            v = ("no-explicit-error", str(outcome))
        elif arch_state == "correct":
            # the archive is fine: whatever the tool does, the library fallback can produce the document
            v = ("healthy-archive-rejected", f"tool {tool}: {type(exc).__name__}: {str(exc)[:200]}")
    finally:
        shutil.rmtree(root, ignore_errors=True)
    res.case(
        case_repr={"external_tool": tool, "format": fmt, "sizes_declared": declared, "archive": arch_state} if res.sample_now(29) else None,
        nontrivial_key=("L5", case),
        outcome_key=("L5", tool, arch_state, v[0] if v else "ok"),
    )
    if v:
        res.violation(f"prepare:{v[0]}:external-tool-{tool}:{fmt}" + ("" if declared else ":sizes-undeclared"),
                      f"external decompressor {tool} format={fmt} declared={declared} archive={arch_state}: {v[1]}", {"layer": 5, "case": list(case)})


# ------------------------------------------------------------------------------------------------ L6 the whole challenge (several corpora)


def l6_cases():
    """which corpora the challenge uses x how the preparation tasks are consumed (all collected first, as the driver's track preparation
    actor does, or one at a time) x archive formats"""
    for used in (("c1",), ("c2",), ("c1", "c2"), ("c2", "c1"), ("c1", "c2", "c3")):
        for consume in ("collect-then-run", "one-at-a-time"):
            for fmts in ((None, "gz"), ("bz2", None), ("zst", "bz2")):
                yield (used, consume, fmts)


def l6_check(case, res):
    setup()
    from esrally import config
    from esrally.track import loader, track
    from esrally.utils import net

    used, consume, fmts = case
    root = new_root()
    docs = {"c1": DOC, "c2": b"".join(b'{"id": %d, "corpus": "second"}\n' % i for i in range(7)), "c3": b'{"id": 0, "c": 3}\n' * 3}
    fmt_of = {"c1": fmts[0], "c2": fmts[1], "c3": None}
    corpora, published = [], {}
    for cname, body in docs.items():
        fmt = fmt_of[cname]
        arch = compress(fmt, body) if fmt else None
        fname = f"{cname}-docs.json"
        published[fname + (f".{fmt}" if fmt else "")] = arch if fmt else body
        ds = track.Documents(track.Documents.SOURCE_FORMAT_BULK, document_file=fname, document_archive=f"{fname}.{fmt}" if fmt else None,
                             base_url="http://example.org/corpora", number_of_documents=body.count(b"\n"),
                             compressed_size_in_bytes=len(arch) if arch else None, uncompressed_size_in_bytes=len(body), target_index="idx")
        corpora.append(track.DocumentCorpus(cname, [ds]))
    # (inline bulk operations without a name of their own all carry the default name "bulk"; only the task names differ)
    tasks = [track.Task(f"bulk-{c}", track.Operation("bulk", "bulk", params={"bulk-size": 2, "corpora": [c]})) for c in used]
    trk = track.Track(name="verif", corpora=corpora, challenges=[track.Challenge("c", default=True, schedule=tasks)])
    cfg = config.Config()
    cfg.add(config.Scope.application, "benchmarks", "local.dataset.cache", root)
    cfg.add(config.Scope.application, "track", "test.mode.enabled", False)

    class ByName:
        def __init__(self):
            self.requests = []

        def __call__(self, method, url, **kw):
            self.requests.append(url)
            if len(self.requests) > 60:
                raise RuntimeError("download loop does not terminate")
            return FakeResponse("ok", published[url.rsplit("/", 1)[1]])

    ep = ByName()
    net._request = ep
    v = None
    exc = None
    CLOCK.start()
    try:
        tp = loader.DefaultTrackPreparator()
        tp.cfg, tp.downloader, tp.decompressor = cfg, loader.Downloader(False, test_mode=False), loader.Decompressor()
        try:
            if consume == "collect-then-run":
                for f, params in list(tp.on_prepare_track(trk, root)):
                    f(**params)
            else:
                for f, params in tp.on_prepare_track(trk, root):
                    f(**params)
        except Exception as e:  # noqa
            exc = e
            v = ("healthy-preparation-fails", f"{type(e).__name__}: {str(e)[:200]}")
    finally:
        CLOCK.stop()
    if v is None:
        for corpus in corpora:
            if corpus.name not in used:
                continue
            g = good_state(os.path.join(root, corpus.name), corpus.documents[0], docs[corpus.name])
            if g:
                v = (f"corpus-not-prepared-{g[0]}", f"corpus {corpus.name} of a challenge that uses {list(used)}: {g[1]}")
                break
    shutil.rmtree(root, ignore_errors=True)
    res.case(
        case_repr={"layer": "L6", "corpora_used": list(used), "consumption": consume, "formats": list(fmts), "requests": len(ep.requests)} if res.sample_now(7) else None,
        nontrivial_key=("L6", case),
        outcome_key=("L6", len(ep.requests), v[0] if v else "ok"),
    )
    if v:
        res.violation(f"prepare:{v[0]}:challenge", f"challenge using corpora {list(used)} ({consume}, formats {list(fmts)}): {v[1]}",
                      {"layer": 6, "case": [list(used), consume, list(fmts)]})


# ------------------------------------------------------------------------------------------------ L8 several document sets, --track-path


def l8_cases():
    """one corpus with three document sets in simple track mode (--track-path: the track directory is tried first, then the data cache): every
    placement of every set -- bundled as plain file, bundled as archive only, not bundled (to be downloaded)"""
    for placement in itertools.product(("plain", "archive", "remote"), repeat=3):
        yield (placement, "gz")
    yield (("archive", "archive", "archive"), "bz2")
    yield (("plain", "remote", "archive"), "zst")


def l8_check(case, res):
    setup()
    from esrally import config
    from esrally.track import loader, track
    from esrally.utils import net

    placement, fmt = case
    root = new_root()
    tdir = os.path.join(root, "mytrack")
    cache = os.path.join(root, "cache")
    os.makedirs(tdir)
    os.makedirs(cache)
    open(os.path.join(tdir, "track.json"), "w").write("{}")
    bodies = [DOC, b"".join(b'{"id": %d, "set": "second"}\n' % i for i in range(7)), b'{"id": 0, "s": 3}\n' * 3]
    sets, published = [], {}
    for i, body in enumerate(bodies):
        arch = compress(fmt, body, name=f"docs-{i}.json")
        fname = f"docs-{i}.json"
        published[f"{fname}.{fmt}"] = arch
        sets.append(track.Documents(track.Documents.SOURCE_FORMAT_BULK, document_file=fname, document_archive=f"{fname}.{fmt}",
                                    base_url="http://example.org/corpora", number_of_documents=body.count(b"\n"),
                                    compressed_size_in_bytes=len(arch), uncompressed_size_in_bytes=len(body), target_index="idx"))
        if placement[i] == "plain":
            open(os.path.join(tdir, fname), "wb").write(body)
        elif placement[i] == "archive":
            open(os.path.join(tdir, f"{fname}.{fmt}"), "wb").write(arch)
    corpus = track.DocumentCorpus("c1", sets)
    trk = track.Track(name="mytrack", corpora=[corpus], challenges=[track.Challenge("c", default=True, schedule=[
        track.Task("bulk", track.Operation("bulk", "bulk", params={"bulk-size": 2}))])])
    cfg = config.Config()
    cfg.add(config.Scope.application, "benchmarks", "local.dataset.cache", cache)
    cfg.add(config.Scope.application, "track", "test.mode.enabled", False)
    cfg.add(config.Scope.application, "track", "track.path", tdir)

    class ByName:
        def __init__(self):
            self.requests = []

        def __call__(self, method, url, **kw):
            self.requests.append(url)
            if len(self.requests) > 60:
                raise RuntimeError("download loop does not terminate")
            return FakeResponse("ok", published[url.rsplit("/", 1)[1]])

    ep = ByName()
    net._request = ep
    v = None
    CLOCK.start()
    try:
        tp = loader.DefaultTrackPreparator()
        tp.cfg, tp.downloader, tp.decompressor = cfg, loader.Downloader(False, test_mode=False), loader.Decompressor()
        try:
            for f, params in list(tp.on_prepare_track(trk, cache)):
                f(**params)
        except Exception as e:  # noqa
            v = ("healthy-preparation-fails", f"{type(e).__name__}: {str(e)[:200]}")
    finally:
        CLOCK.stop()
    if v is None:
        for i, ds in enumerate(sets):
            where = tdir if placement[i] != "remote" else os.path.join(cache, "c1")
            g = good_state(where, ds, bodies[i])
            if g:
                v = (f"document-set-not-prepared-{g[0]}", f"document set {i} ({placement[i]}) of a corpus with sets placed {list(placement)}: {g[1]}")
                break
        want_requests = sum(1 for p_ in placement if p_ == "remote")
        if v is None and len(ep.requests) != want_requests:
            v = ("downloads", f"{len(ep.requests)} download requests, {want_requests} document sets are not bundled with the track")
    shutil.rmtree(root, ignore_errors=True)
    res.case(
        case_repr={"layer": "L8", "placement_of_the_three_document_sets": list(placement), "format": fmt, "requests": len(ep.requests)} if res.sample_now(5) else None,
        nontrivial_key=("L8", case),
        outcome_key=("L8", len(ep.requests), v[0] if v else "ok"),
    )
    if v:
        res.violation(f"prepare:{v[0]}:track-path", f"--track-path corpus with document sets placed {list(placement)} ({fmt}): {v[1]}",
                      {"layer": 8, "case": [list(placement), fmt]})


# ------------------------------------------------------------------------------------------------ L7 mistyped sizes


def l7_cases():
    for fmt in ("bz2", "gz", "zst", "zip"):
        for delta in (-12, 12):
            for doc_state in ("absent", "correct"):
                for offline, base_url in ((False, True), (True, True), (False, False)):
                    yield (fmt, delta, doc_state, offline, base_url)


def l7_check(case, res):
    """the track declares an uncompressed size that the (intact, right-sized) archive does not decompress to -- an archive re-published with
    other content, or a mistyped number: preparation ends with an explicit error in bounded time and never accepts the document"""
    setup()
    fmt, delta, doc_state, offline, base_url = case
    archive = compress(fmt, DOC)
    root = new_root()
    v = None
    outcome = exc = None
    try:
        populate(root, fmt, doc_state, "correct", archive)
        ds = docset(fmt, True, base_url, archive=archive)
        ds.uncompressed_size_in_bytes = len(DOC) + delta
        ep = Endpoint((), archive)
        outcome, exc = prepare(root, ds, ep, offline)
        if outcome == "hangs" or (exc is not None and "does not terminate" in str(exc)):
            v = ("no-termination", f"{exc}")
        elif outcome == "returned":
            v = ("returned-but-document-wrong-size", f"document has {len(DOC)} bytes, the track declares {len(DOC) + delta}")
        elif not isinstance(exc, Exception):
            v = ("no-explicit-error", f"{outcome}")
    finally:
        shutil.rmtree(root, ignore_errors=True)
    res.case(
        case_repr={"layer": "L7", "format": fmt, "declared_minus_actual_size": delta, "document": doc_state, "offline": offline, "base_url": base_url,
                   "result": outcome, "error": type(exc).__name__ if exc else None} if res.sample_now(7) else None,
        nontrivial_key=("L7", case),
        outcome_key=("L7", outcome, type(exc).__name__ if exc else None, v[0] if v else "ok"),
    )
    if v:
        res.violation(f"prepare:{v[0]}:{fmt}:declared-size-mismatch", f"format={fmt} declared uncompressed size {delta:+d} bytes off, document {doc_state}, offline={offline} base_url={base_url}: {v[1]}",
                      {"layer": 7, "case": list(case)})


# ------------------------------------------------------------------------------------------------ L9 bucket back-ends (s3:// and gs://)

BUCKET_OUTCOMES = {"s3": ["ok", "error", "wrong-length", "missing-object"], "gs": ["ok", "ok-3-chunks", "error-first-chunk", "error-mid", "wrong-length", "auth-error"]}


class SdkError(Exception):
    """stands for botocore.exceptions.ClientError / google.resumable_media.common.InvalidResponse / DefaultCredentialsError"""


def install_fake_sdks(state):
    """boto3 and the Google libraries are optional extras that are not installed here: minimal stand-ins with the calls
    net._download_from_s3_bucket / _download_from_gcs_bucket make. `state` = {"kind": outcome, "published": bytes, "calls": []}.
    s3transfer writes to a temporary name and renames on success (and removes the temporary file on failure), so a failing
    S3 download leaves nothing at local_path; ChunkedDownload writes chunk after chunk into the stream Rally opened."""
    import sys
    import types

    def mod(name, **attrs):
        m = types.ModuleType(name)
        m.__dict__.update(attrs)
        sys.modules[name] = m
        return m

    class _Object:
        def __init__(self, key):
            self.key = key

        @property
        def content_length(self):
            if state["kind"] == "missing-object":
                raise SdkError("An error occurred (404) when calling the HeadObject operation: Not Found")
            return len(OTHER if state["kind"] == "wrong-length" else state["published"])

    class _Bucket:
        def __init__(self, name):
            self.name = name

        def Object(self, key):
            return _Object(key)

        def download_file(self, key, local_path, Callback=None, Config=None):
            state["calls"].append(("s3", self.name, key))
            if state["kind"] in ("error", "missing-object"):
                raise SdkError("An error occurred (403) when calling the GetObject operation: Forbidden")
            body = OTHER if state["kind"] == "wrong-length" else state["published"]
            tmp = local_path + ".6eF5b5da"
            with open(tmp, "wb") as f:
                f.write(body)
            os.rename(tmp, local_path)
            if Callback:
                Callback(len(body))

    class _Resource:
        def Bucket(self, name):
            return _Bucket(name)

    transfer = mod("boto3.s3.transfer", TransferConfig=lambda **kw: ("config", kw))
    s3 = mod("boto3.s3", transfer=transfer)
    mod("boto3", resource=lambda kind: _Resource(), s3=s3)

    class ChunkedDownload:
        def __init__(self, media_url, chunk_size, stream):
            self.media_url, self.stream = media_url, stream
            self.body = OTHER if state["kind"] == "wrong-length" else state["published"]
            n = 3 if state["kind"] in ("ok-3-chunks", "error-mid") else 1
            step = -(-len(self.body) // n)
            self.chunks = [self.body[i : i + step] for i in range(0, len(self.body), step)]
            self.i = 0
            self.bytes_downloaded = 0
            self.total_bytes = None
            state["calls"].append(("gs", media_url))

        @property
        def finished(self):
            return self.i >= len(self.chunks)

        def consume_next_chunk(self, transport):
            if state["kind"] == "error-first-chunk" or (state["kind"] == "error-mid" and self.i == 1):
                raise SdkError("Request failed with status code 503")
            c = self.chunks[self.i]
            self.i += 1
            self.stream.write(c)
            self.bytes_downloaded += len(c)
            self.total_bytes = len(self.body)

    def default(scopes=None):
        if state["kind"] == "auth-error":
            raise SdkError("Could not automatically determine credentials.")
        return ("credentials", None)

    g = mod("google")
    g.__path__ = []
    auth = mod("google.auth", default=default)
    auth.__path__ = []
    tr = mod("google.auth.transport")
    tr.__path__ = []
    req = mod("google.auth.transport.requests", AuthorizedSession=lambda cred: ("session", cred))
    o2 = mod("google.oauth2")
    o2.__path__ = []
    cr = mod("google.oauth2.credentials", Credentials=lambda **kw: ("credentials", kw))
    rm = mod("google.resumable_media")
    rm.__path__ = []
    rr = mod("google.resumable_media.requests", ChunkedDownload=ChunkedDownload)
    g.auth, g.oauth2, g.resumable_media = auth, o2, rm
    auth.transport, tr.requests, o2.credentials, rm.requests = tr, req, cr, rr


def l9_cases(tier):
    for scheme in ("s3", "gs"):
        for fmt in (None, "bz2") + (("zip",) if tier == "thorough" else ()):
            for declared in (True, False):
                for doc_state in ("absent", "truncated"):
                    for arch_state in (("absent", "truncated") if fmt else ("absent",)):
                        for kind in BUCKET_OUTCOMES[scheme]:
                            yield (scheme, fmt, declared, doc_state, arch_state, kind, None)
                        if scheme == "gs":
                            # every crash point (torn in the middle of the write) of a chunked download, then a healthy second run
                            for k in range(0, 8):
                                yield (scheme, fmt, declared, doc_state, arch_state, "ok-3-chunks", k)


def l9_check(case, res):
    """the corpus is published in a bucket (base-url s3://... or gs://...): same statement as L1, through net.download_from_bucket"""
    setup()
    scheme, fmt, declared, doc_state, arch_state, kind, crash_at = case
    archive = compress(fmt, DOC) if fmt else None
    published = archive if fmt else DOC
    root = new_root()
    v = None
    outcome = exc = None
    state = {"kind": kind, "published": published, "calls": []}
    install_fake_sdks(state)
    os.environ.pop("GOOGLE_AUTH_TOKEN", None)

    def no_http(method, url, **kw):
        raise AssertionError(f"HTTP request for a bucket URL: {url}")

    try:
        initial = populate(root, fmt, doc_state, arch_state, archive)
        ds = docset(fmt, declared, True, archive=archive)
        ds.base_url = f"{scheme}://corpora-bucket/some/prefix"
        if crash_at is None:
            outcome, exc = prepare(root, ds, no_http, False)
        else:
            fired = []
            c = StepCounter(root, crash_at=crash_at, torn="half", on_crash=lambda: fired.append(1))
            outcome, exc = prepare(root, ds, no_http, False, counter=c)
            if fired:
                # the process was killed: what the unwinding exception turns into in the live process (zip extraction wraps it) is irrelevant
                outcome, exc = "crashed", None
        want_url = f"corpora-bucket/some/prefix/{ds.document_archive or ds.document_file}"
        if isinstance(exc, AssertionError):
            v = ("bucket-url-fetched-over-http", str(exc))
        elif outcome == "hangs":
            v = ("no-termination", str(exc))
        elif outcome == "returned":
            g = good_state(root, ds)
            if g:
                v = (f"returned-but-{g[0]}", g[1])
        elif outcome == "raised" and not isinstance(exc, Exception):
            v = ("no-explicit-error", f"{outcome}")
        if v is None:
            v = partial_under_final_name(root, ds, initial, DOC, archive, declared)
        if v is None and state["calls"]:
            call = state["calls"][0]
            got = f"{call[1]}/{call[2]}" if call[0] == "s3" else call[1]
            if call[0] != scheme:
                v = ("wrong-bucket-back-end", f"{scheme}:// URL served by the {call[0]} back-end")
            elif scheme == "s3" and got != want_url:
                v = ("wrong-bucket-object", f"asked for {got}, the corpus is at {want_url}")
            elif scheme == "gs" and "corpora-bucket" not in got:
                v = ("wrong-bucket-object", f"asked for {got}")
        if v is None and outcome == "raised" and kind in ("ok", "ok-3-chunks") and declared and (not fmt or arch_state == "absent" or declared):
            v = ("healthy-download-fails", f"{type(exc).__name__}: {str(exc)[:200]}")
        if v is None and outcome == "returned" and kind not in ("ok", "ok-3-chunks") and declared:
            v = ("returned-although-download-failed", f"bucket answered {kind}")
        if v is None and outcome in ("raised", "crashed"):
            # the user runs Rally again, the bucket is healthy this time
            state["kind"] = "ok"
            outcome2, exc2 = prepare(root, ds, no_http, False)
            if outcome2 == "returned":
                g = good_state(root, ds)
                if g and crash_at is not None and crash_at < len(c.log):
                    st = c.log[crash_at]
                    what = "offset-table" if str(st[1]).endswith(".offset") else ("document" if st[1] == "docs.json" else "download")
                    v = (f"after-crash-returned-but-{g[0]}:crash-in-{st[0]}-of-{what}", f"first run killed at step {crash_at} {st}, the second run returned: {g[1]}")
                elif g:
                    v = (f"second-run-returned-but-{g[0]}", f"first run {outcome} ({type(exc).__name__ if exc else 'killed'}), the second run returned: {g[1]}")
            elif not isinstance(exc2, Exception):
                v = ("second-run-no-explicit-error", f"{outcome2}")
            elif declared:
                v = ("second-run-fails-on-healthy-bucket", f"{type(exc2).__name__}: {str(exc2)[:200]}")
    finally:
        shutil.rmtree(root, ignore_errors=True)
    res.case(
        case_repr={"layer": "L9", "scheme": scheme, "format": fmt, "sizes_declared": declared, "document": doc_state, "archive": arch_state, "bucket_answer": kind,
                   "crash_at_step": crash_at, "result": outcome, "error": type(exc).__name__ if exc else None} if res.sample_now(37) else None,
        nontrivial_key=("L9", case),
        outcome_key=("L9", scheme, outcome, type(exc).__name__ if exc else None, v[0] if v else "ok"),
    )
    if v:
        res.violation(f"prepare:{v[0]}" + ("" if ":crash-in-" in v[0] else f":{scheme}:{fmt or 'plain'}") + ("" if declared else ":sizes-undeclared"),
                      f"{scheme}:// bucket, format={fmt} declared={declared} doc={doc_state} archive={arch_state} answer={kind} crash_at={crash_at}: {v[1]}",
                      {"layer": 9, "case": list(case)})


def _job(arg):
    layer, items = arg
    res = Result()
    for it in items:
        if layer == 1:
            l1_check(it, res)
        elif layer == 2:
            l2_check(it, res)
        elif layer == 4:
            l4_check(it, res)
        elif layer == 5:
            l5_check(it, res)
        elif layer == 6:
            l6_check(it, res)
        elif layer == 7:
            l7_check(it, res)
        elif layer == 8:
            l8_check(it, res)
        elif layer == 9:
            l9_check(it, res)
        else:
            l3_check(it, res)
    return res


def run(tier, seed):
    l1 = list(l1_cases(tier))
    l2 = list(l2_cases(tier))
    l3 = l3_states()
    l4 = list(l4_cases())
    jobs = [(1, ch) for ch in par.chunks(l1, par.NPROC * 4)] + [(2, [c]) for c in l2] + [(3, [s]) for s in l3] + [(4, ch) for ch in par.chunks(l4, 8)] + [(5, ch) for ch in par.chunks(list(l5_cases()), 8)]
    jobs += [(6, ch) for ch in par.chunks(list(l6_cases()), 8)]
    jobs += [(7, ch) for ch in par.chunks(list(l7_cases()), 8)]
    jobs += [(8, ch) for ch in par.chunks(list(l8_cases()), 8)]
    l9 = list(l9_cases(tier))
    jobs += [(9, ch) for ch in par.chunks(l9, 16)]
    res = par.pmap(_job, jobs, seed=seed)
    res.extra["L1_cases"] = len(l1)
    res.extra["L2_histories"] = len(l2)
    res.extra["L3_states"] = len(l3)
    res.extra["L4_bundled_cases"] = len(l4)
    res.extra["L9_bucket_cases"] = len(l9)
    res.states = res.evaluations
    res.transitions = res.evaluations
    return res


def replay(data):
    res = Result()
    if data["layer"] == 1:
        c = data["case"]
        l1_check((c[0], c[1], c[2], c[3], c[4], c[5], tuple(c[6])), res)
    elif data["layer"] == 2:
        c = data["case"]
        l2_check((c[0], c[1], tuple(c[2])) + tuple(c[3:]), res)
    elif data["layer"] == 4:
        l4_check(tuple(data["case"]), res)
    elif data["layer"] == 5:
        l5_check(tuple(data["case"]), res)
    elif data["layer"] == 7:
        l7_check(tuple(data["case"]), res)
    elif data["layer"] == 9:
        l9_check(tuple(data["case"]), res)
    elif data["layer"] == 8:
        l8_check((tuple(data["case"][0]), data["case"][1]), res)
    elif data["layer"] == 6:
        c = data["case"]
        l6_check((tuple(c[0]), c[1], tuple(c[2])), res)
    else:
        l3_check(data["state"], res)
    return [v for lst in res.violations.values() for v in lst]
