"""C03 -- bulk indexing ingests every corpus document exactly once across clients.

Bounded-exhaustive enumeration over real files: corpora layouts x client counts x worker splits (real
calculate_worker_assignments) x bulk / batch sizes x ingest percentages x conflict modes through the real
BulkIndexParamSource / PartitionBulkIndexParamSource / readers / Slice / MmapSource / offset tables; reference = the files
read line by line.  Arithmetic layer: bounds() tiling and the ingest-percentage cut for totals up to 10^12.
"""
import fractions
import itertools
import json
import math
import os
import random
import shutil
import tempfile

from mc import vclock

vclock.install()

from mc import par  # noqa: E402
from mc.core import Result

ID = "C03"
LEVEL = "exploration"
RULE = (
    "layer A: bounds() for totals around 2^k, 10^k, k*clients+-1 up to 10^12 x clients 1..64 x every contiguous client group; "
    "layer P: ingest-percentage cut for docs {100,150,200,300,1000,12345} x bulk size {1,7} x 14 percentages x clients {1,2,3} with "
    "synthetic readers; layer F: 12 corpus layouts (1-2 corpora x 1-2 files, 1..11 docs, with/without action-and-meta-data lines, ASCII and "
    "2/3/4-byte UTF-8) x clients 1..5 x worker splits of 4 layouts x bulk {1,2,3,5,1000} x batch {1x,2x,3x} x percentage {100,75,50,34,1} and "
    "conflict modes; layer E: 12 layouts x clients {1,2,3,5} x 4 worker splits x bulk {1,3,1000} end to end through the real worker stack "
    "(AsyncIoAdapter .. BulkIndex runner .. client) against the simulated _bulk endpoint, also with the bulk task inside a parallel element beside another task (allocations from the real Allocator: client id != index in task, element larger than the task) and beside a twin bulk task that refers to the same operation (each ingests the whole corpus); layer O: files of 49999..200000 lines (offset tables; also sizes where a client group starts exactly on a table entry) with multi-byte content, one of them a new revision of a file whose offset table already existed, x clients {2,3} x two bulk sizes. "
    "non-trivial = more than one client or more than one bulk; distinct = the configuration"
)
ASSUMPTIONS = [
    "all co-located clients of a task share one partitioned parameter source (as AsyncIoAdapter creates it): the order in which they pull is irrelevant to "
    "the set of bulks; pulls are made round-robin",
    "10^12-document files are covered at the arithmetic layers only; real files go up to ~1.2*10^5 lines",
]

_S = {}


def scratch():
    if "dir" not in _S or _S.get("pid") != os.getpid():
        _S["dir"] = tempfile.mkdtemp(prefix="verif-c03-")
        _S["pid"] = os.getpid()
        import atexit

        d = _S["dir"]
        atexit.register(lambda: shutil.rmtree(d, ignore_errors=True))
    return _S["dir"]


# ------------------------------------------------------------------------------------------------ layer A


def check_bounds(res):
    from esrally.track import params

    totals = set()
    for k in range(0, 41, 3):
        totals.update({2**k - 1, 2**k, 2**k + 1})
    for k in range(0, 13):
        totals.update({10**k - 1, 10**k, 10**k + 1})
    totals = sorted(t for t in totals if 0 <= t <= 10**12)
    for n in list(range(1, 17)) + [31, 32, 33, 63, 64]:
        extra = {k * n + d for k in (1, 3, 1000) for d in (-1, 0, 1)}
        for total in sorted(set(totals) | {t for t in extra if t >= 0}):
            for meta in (False, True):
                lpd = 2 if meta else 1
                prev_end = 0
                v = None
                sizes = []
                for i in range(n):
                    off, docs, lines = params.bounds(total, i, i, n, meta)
                    sizes.append(docs)
                    if off != prev_end * lpd:
                        v = ("bounds-not-contiguous", f"client {i}/{n} of {total} docs starts at line {off}, previous client ended at doc {prev_end}")
                    elif docs < 0 or lines != docs * lpd:
                        v = ("bounds-lines", f"client {i}/{n} of {total}: docs {docs} lines {lines}")
                    if v:
                        break
                    prev_end += docs
                if v is None and prev_end != total:
                    v = ("bounds-do-not-cover", f"{n} clients cover {prev_end} of {total} docs")
                if v is None and max(sizes) - min(sizes) > 1:
                    v = ("bounds-unbalanced", f"{n} clients of {total}: sizes {min(sizes)}..{max(sizes)}")
                if v is None and n <= 8:
                    for s in range(n):
                        for e in range(s, n):
                            off, docs, lines = params.bounds(total, s, e, n, meta)
                            o1 = params.bounds(total, s, s, n, meta)[0]
                            want = sum(sizes[s : e + 1])
                            if off != o1 or docs != want:
                                v = ("bounds-group", f"group {s}..{e} of {n} over {total}: offset {off} docs {docs}, singles give {o1} / {want}")
                                break
                        if v:
                            break
                res.case(nontrivial_key=("A", total, n, meta) if n > 1 else None, outcome_key=("A", v[0] if v else "ok", min(n, 3), total % 3))
                if v:
                    res.violation(f"bulk:{v[0]}", v[1], {"layer": "A", "total": total, "n": n, "meta": meta})


# ------------------------------------------------------------------------------------------------ layer P (percentage)


class SyntheticReader:
    def __init__(self, num_docs, bulk_size):
        self.left = num_docs
        self.bulk_size = bulk_size

    def __enter__(self):
        return self

    def __exit__(self, *a):
        return False

    def __iter__(self):
        return self

    def __next__(self):
        if self.left <= 0:
            raise StopIteration()
        n = min(self.bulk_size, self.left)
        self.left -= n
        return "idx", None, [(n, b"x\n" * n)]


def check_percentage(res):
    from esrally.track import params, track

    pcts = [1, 7, 14, 17, 28, 33.333, 34, 50, 55, 56, 75, 99.5, 100, 12.5]
    for docs, bulk, pct, clients in itertools.product([100, 150, 200, 300, 1000, 12345], [1, 7], pcts, [1, 2, 3]):
        d = track.Documents(track.Documents.SOURCE_FORMAT_BULK, document_file="/nonexistent", number_of_documents=docs, target_index="idx")
        corpus = track.DocumentCorpus("c", [d])
        t = track.Track(name="t", corpora=[corpus])
        v = None
        for group in ([0], list(range(clients))) if clients > 1 else ([0],):
            p = {"bulk-size": bulk, "ingest-percentage": pct,
                 "__create_reader": lambda docs_, offset, num_lines, num_docs, batch, bulk_, *a: SyntheticReader(num_docs, bulk_)}
            src = params.BulkIndexParamSource(t, p)
            part = None
            for ci in group:
                part = src.partition(ci, clients)
            n = 0
            try:
                while n < 10**6:
                    part.params()
                    n += 1
            except StopIteration:
                pass
            _, gdocs, _ = params.bounds(docs, group[0], group[-1], clients, False)
            all_bulks = math.ceil(gdocs / bulk)
            want = math.ceil(fractions.Fraction(all_bulks) * fractions.Fraction(str(pct)) / 100)
            if n != want:
                v = ("percentage-cut", f"docs={docs} bulk={bulk} clients {group} of {clients} pct={pct}: {n} bulks issued, ceil({pct}% of {all_bulks}) = {want}")
                break
        res.case(nontrivial_key=("P", docs, bulk, pct, clients), outcome_key=("P", v[0] if v else "ok", pct))
        if v:
            res.violation(f"bulk:{v[0]}", v[1], {"layer": "P", "docs": docs, "bulk": bulk, "pct": pct, "clients": clients})


# ------------------------------------------------------------------------------------------------ layer F (real files)

TEXTS = ["plain ascii", "umlaut äöü", "cjk 漢字かな", "emoji \U0001F600\U0001F680 mixed é", ""]

# corpus layouts: list of corpora; corpus = list of (docs, with_meta, text kind)
LAYOUTS = [
    [[(1, False, 0)]],
    [[(2, False, 1)]],
    [[(3, True, 0)]],
    [[(5, False, 2)]],
    [[(7, True, 3)]],
    [[(10, False, 3)]],
    [[(11, False, 1)]],
    [[(5, False, 0), (3, False, 2)]],
    [[(7, False, 1)], [(2, False, 0)]],
    [[(10, True, 2)], [(3, False, 3), (1, False, 0)]],
    [[(11, False, 4)], [(11, True, 1)]],
    [[(2, False, 3)], [(5, False, 2)]],
]
HOSTS = {"1x1": [{"host": "h", "cores": 1}], "1x2": [{"host": "h", "cores": 2}], "2x1": [{"host": "a", "cores": 1}, {"host": "b", "cores": 1}], "1x3": [{"host": "h", "cores": 3}]}


def write_corpora(layout, tag):
    from esrally.track import track

    d = os.path.join(scratch(), tag)
    os.makedirs(d, exist_ok=True)
    corpora, ref = [], {}
    for ci, corpus in enumerate(layout):
        docs_objs = []
        for fi, (n, meta, tk) in enumerate(corpus):
            path = os.path.join(d, f"c{ci}-f{fi}.json")
            lines = []
            for k in range(n):
                doc = json.dumps({"id": f"c{ci}f{fi}d{k}", "t": TEXTS[tk] * (1 + k % 3)}, ensure_ascii=False) + "\n"
                if meta:
                    lines.append(json.dumps({"index": {"_id": f"m-c{ci}f{fi}d{k}"}}) + "\n")
                lines.append(doc)
            with open(path, "w", encoding="utf-8") as f:
                f.writelines(lines)
            ref[path] = [l.encode("utf-8") for l in lines]
            docs_objs.append(track.Documents(track.Documents.SOURCE_FORMAT_BULK, document_file=path, number_of_documents=n,
                                             includes_action_and_meta_data=meta, target_index=f"idx{ci}"))
        corpora.append(track.DocumentCorpus(f"corpus{ci}", docs_objs))
    return track.Track(name="t", corpora=corpora), ref


def split_body(body):
    return [l + b"\n" for l in body.split(b"\n") if l]


def run_groups(trk, clients, hosts, op_params):
    """one parameter source per worker; returns per group the list of params dicts"""
    from esrally.driver import driver
    from esrally.track import params

    out = []
    for h in driver.calculate_worker_assignments(hosts, clients):
        for group in h["workers"]:
            if not group:
                continue
            src = params.BulkIndexParamSource(trk, dict(op_params))
            part = None
            for ci in group:
                part = src.partition(ci, clients)
            bulks = []
            try:
                while len(bulks) < 100000:
                    bulks.append(part.params())
            except StopIteration:
                pass
            out.append((group, bulks))
    return out


def check_files(layout_i, clients, hname, bulk, batch_mult, pct, conflicts, res, large=None):
    from esrally.track import params

    if large is None:
        trk, ref = _S.setdefault("tracks", {}).get((os.getpid(), layout_i)) or (None, None)
        if trk is None:
            trk, ref = write_corpora(LAYOUTS[layout_i], f"l{layout_i}")
            _S["tracks"][(os.getpid(), layout_i)] = (trk, ref)
    else:
        trk, ref = large
    op = {"bulk-size": bulk, "batch-size": bulk * batch_mult, "ingest-percentage": pct}
    has_meta = any(d.includes_action_and_meta_data for c in trk.corpora for d in c.documents)
    if conflicts:
        if has_meta:
            return
        op.update({"conflicts": conflicts[0], "on-conflict": conflicts[1], "conflict-probability": conflicts[2]})
        if len(conflicts) > 3:
            op["recency"] = conflicts[3]
    random.seed(1234)
    v = None
    try:
        groups = run_groups(trk, clients, HOSTS[hname], op)
    except Exception as e:  # noqa
        groups = []
        v = ("raises", f"{type(e).__name__}: {e}")
    seen_docs = {}  # path -> list of (doc index) emitted overall
    first_ids = set()
    total_bulks_emitted = 0
    if v is None:
        # full run for the percentage prefix property
        full = groups if pct == 100 else None
        if full is None:
            random.seed(1234)
            full = run_groups(trk, clients, HOSTS[hname], dict(op, **{"ingest-percentage": 100}))
        for (group, bulks), (_g2, fbulks) in zip(groups, full):
            want_n = math.ceil(fractions.Fraction(len(fbulks)) * fractions.Fraction(str(pct)) / 100)
            if len(bulks) != want_n:
                v = ("percentage-cut", f"clients {group}: {len(bulks)} bulks at {pct}%, all bulks = {len(fbulks)}, expected {want_n}")
                break
            if not conflicts and [b["body"] for b in bulks] != [b["body"] for b in fbulks[: len(bulks)]]:
                v = ("percentage-not-a-prefix", f"clients {group}: the {pct}% run is not a prefix of the full run")
                break
            emitted_ids = set()
            per_file_idx = {}
            for b in bulks:
                total_bulks_emitted += 1
                lines = split_body(b["body"])
                if len(lines) % 2:
                    v = ("unpaired-lines", f"clients {group}: body with {len(lines)} lines")
                    break
                ndocs = len(lines) // 2
                if b["bulk-size"] != ndocs or ndocs > bulk or b.get("unit") != "docs":
                    v = ("bulk-size-field", f"clients {group}: bulk-size {b['bulk-size']} unit {b.get('unit')} for {ndocs} docs (configured {bulk})")
                    break
                for k in range(ndocs):
                    act, doc = lines[2 * k], lines[2 * k + 1]
                    try:
                        a = json.loads(act)
                    except Exception:
                        v = ("action-line", f"clients {group}: {act!r} is not an action line")
                        break
                    kind = next(iter(a))
                    if kind not in ("index", "update", "create"):
                        v = ("action-line", f"clients {group}: action {kind}")
                        break
                    payload = doc
                    if kind == "update":
                        if not (doc.startswith(b'{"doc":') and doc.endswith(b"}\n")):
                            v = ("update-body", f"clients {group}: {doc!r}")
                            break
                        payload = doc[len(b'{"doc":') : -2] + b"\n"
                    try:
                        did = json.loads(payload)["id"]
                    except Exception:
                        v = ("document-line", f"clients {group}: {doc!r} is not a document (action {act!r})")
                        break
                    ci_, fi_, dk = did[1 : did.index("f")], did[did.index("f") + 1 : did.index("d")], int(did[did.index("d") + 1 :])
                    path = [p for p in ref if p.endswith(f"c{ci_}-f{fi_}.json")][0]
                    meta = any(d.includes_action_and_meta_data for c in trk.corpora for d in c.documents if d.document_file == path)
                    src_lines = ref[path]
                    want_doc = src_lines[2 * dk + 1] if meta else src_lines[dk]
                    if payload != want_doc:
                        v = ("document-bytes", f"clients {group}: doc {did} emitted as {payload!r}, file has {want_doc!r}")
                        break
                    if meta and act != src_lines[2 * dk]:
                        v = ("meta-line-not-paired", f"clients {group}: doc {did} preceded by {act!r}, file has {src_lines[2 * dk]!r}")
                        break
                    if not meta:
                        idx_name = a[kind].get("_index")
                        if idx_name != f"idx{ci_}":
                            v = ("target-index", f"doc {did} sent to {idx_name}")
                            break
                        _id = a[kind].get("_id")
                        if conflicts:
                            if _id is None:
                                v = ("conflict-id-missing", f"{act!r}")
                                break
                            if kind == "update" or _id in emitted_ids:
                                if _id not in emitted_ids:
                                    v = ("conflict-id-not-yet-emitted", f"clients {group}: {kind} with id {_id} which this reader has not emitted before")
                                    break
                            else:
                                if (path, _id) in first_ids:
                                    v = ("id-reused-across-clients", f"id {_id} of {os.path.basename(path)} first emitted by two readers")
                                    break
                                first_ids.add((path, _id))
                                emitted_ids.add(_id)
                    per_file_idx.setdefault(path, []).append(dk)
                    seen_docs.setdefault(path, []).append(dk)
                if v:
                    break
            if v:
                break
            for path, idxs in per_file_idx.items():
                if idxs != list(range(idxs[0], idxs[0] + len(idxs))):
                    v = ("not-a-contiguous-slice", f"clients {group}: docs {idxs} of {os.path.basename(path)}")
                    break
            if v:
                break
        if v is None and pct == 100:
            for path, src_lines in ref.items():
                meta = any(d.includes_action_and_meta_data for c in trk.corpora for d in c.documents if d.document_file == path)
                n = len(src_lines) // (2 if meta else 1)
                got = sorted(seen_docs.get(path, []))
                if got != list(range(n)):
                    missing = sorted(set(range(n)) - set(got))
                    dups = sorted({x for x in got if got.count(x) > 1}) if len(got) < 5000 else "(many)"
                    v = ("not-exactly-once", f"{os.path.basename(path)}: {n} docs, missing {missing[:8]} ({len(missing)}), duplicated {dups if isinstance(dups, str) else dups[:8]}")
                    break
    res.case(
        case_repr={"corpora": LAYOUTS[layout_i] if large is None else "large", "clients": clients, "workers": hname, "bulk": bulk, "batch": bulk * batch_mult,
                   "ingest_percentage": pct, "conflicts": conflicts, "bulks": total_bulks_emitted}
        if res.sample_now(6007)
        else None,
        nontrivial_key=("F", layout_i, clients, hname, bulk, batch_mult, pct, conflicts, bool(large)) if clients > 1 or total_bulks_emitted > 1 else None,
        outcome_key=("F", total_bulks_emitted, v[0] if v else "ok"),
    )
    if v:
        res.violation(
            f"bulk:{v[0]}" + (":offset-table" if large else "") + (":conflicts" if conflicts else ""),
            f"corpora={LAYOUTS[layout_i] if large is None else 'large'} clients={clients} workers={hname} bulk={bulk} batch={bulk * batch_mult} pct={pct} conflicts={conflicts}: {v[1]}",
            {"layer": "F", "layout": layout_i, "clients": clients, "hosts": hname, "bulk": bulk, "batch": batch_mult, "pct": pct,
             "conflicts": list(conflicts) if conflicts else None, "large": large is not None and _S.get("large_spec")},
        )


# ------------------------------------------------------------------------------------------------ layer E (end to end)


def check_e2e(layout_i, clients, hname, bulk, res, beside=0):
    """the real bulk task through the real worker stack (AsyncIoAdapter, schedule, executor, BulkIndex runner, client) against the
    simulated node: the bodies received by the _bulk endpoint contain every document exactly once"""
    from esrally.driver import driver
    from esrally.track import track

    from mc import loadgen

    loadgen.setup()
    trk, ref = _S.setdefault("tracks", {}).get((os.getpid(), layout_i)) or (None, None)
    if trk is None:
        trk, ref = write_corpora(LAYOUTS[layout_i], f"l{layout_i}")
        _S["tracks"][(os.getpid(), layout_i)] = (trk, ref)
    op = track.Operation("bulk-op", "bulk", params={"bulk-size": bulk})
    task = track.Task("bulk-task", op, clients=clients)
    seen = {}
    v = None
    nreq = 0

    def behaviour(entry):
        n = len([l for l in (entry["body"] or b"").split(b"\n") if l]) // 2
        return {"service_time": 0.0625, "body": {"took": 1, "errors": False, "items": [{"index": {"status": 201}}] * n}}

    rows = None
    twin = beside == "twin"
    if twin:
        # two differently named bulk tasks that refer to the SAME operation run side by side (clients of both co-located on a worker): each
        # task has its own parameter source, so each ingests the whole corpus exactly once
        beside = clients
        other = track.Task("bulk-twin", op, clients=clients)
        rows = driver.Allocator([track.Parallel([other, task])]).allocations
    elif beside:
        # the bulk task runs inside a parallel element beside another task with `beside` clients: the real Allocator numbers the clients,
        # so a client's index in the task differs from its id and the element has more clients than the task
        other = track.Task("other", track.Operation("other-op", "sleep", params={"duration": 1}), clients=beside)
        rows = driver.Allocator([track.Parallel([other, task])]).allocations
    for h in driver.calculate_worker_assignments(HOSTS[hname], clients + beside):
        for group in h["workers"]:
            if not group:
                continue
            if rows is None:
                allocs = [(cid, loadgen.allocation(task, cid)) for cid in group]
            else:
                allocs = [(g, ta) for g in group for ta in rows[g] if isinstance(ta, driver.TaskAllocation) and (twin or ta.task is task)]
                if not allocs:
                    continue
            r = loadgen.run_worker(allocs, behaviour, track=trk)
            if r.error is not None or r.loop_errors:
                v = ("e2e-raises", f"clients {group}: {type(r.error).__name__}: {r.error} {r.loop_errors[:1]}")
                break
            tname = {g: ta.task.name for g, ta in allocs}
            for e in r.log:
                if "_bulk" not in e["target"]:
                    continue
                nreq += 1
                tn = tname.get(e["client_id"], "?") if twin else "bulk-task"
                lines = split_body(e["body"] or b"")
                if len(lines) % 2:
                    v = ("e2e-unpaired-lines", f"request with {len(lines)} lines")
                    break
                for k in range(0, len(lines), 2):
                    did = (tn, json.loads(lines[k + 1])["id"])
                    seen[did] = seen.get(did, 0) + 1
            total_ops = sum(s.total_ops for s in r.samples)
            if v is None and total_ops != sum(len(split_body(e["body"] or b"")) // 2 for e in r.log if "_bulk" in e["target"]):
                v = ("e2e-sample-weights", f"clients {group}: samples report {total_ops} docs")
        if v:
            break
    if v is None:
        want = set()
        for path, lines in ref.items():
            meta = any(d.includes_action_and_meta_data for c in trk.corpora for d in c.documents if d.document_file == path)
            for l in (lines[1::2] if meta else lines):
                for tn in ("bulk-task", "bulk-twin") if twin else ("bulk-task",):
                    want.add((tn, json.loads(l)["id"]))
        missing = sorted(want - set(seen))
        dups = sorted(k for k, n in seen.items() if n > 1)
        extra = sorted(set(seen) - want)
        if missing or dups or extra:
            v = ("e2e-not-exactly-once", f"missing {missing[:6]} duplicated {dups[:6]} unexpected {extra[:6]}")
    res.case(
        case_repr={"end_to_end": True, "corpora": LAYOUTS[layout_i], "clients": clients, "workers": hname, "bulk": bulk, "bulk_requests": nreq, "clients_of_parallel_sibling": "twin task on the same operation" if twin else beside} if res.sample_now(211) else None,
        nontrivial_key=("E", layout_i, clients, hname, bulk, "twin" if twin else beside) if clients > 1 or nreq > 1 else None,
        outcome_key=("E", nreq, "twin" if twin else beside, v[0] if v else "ok"),
    )
    if v:
        res.violation(f"bulk:{v[0]}" + (":twin-tasks-one-operation" if twin else ":in-parallel-element" if beside else ""), f"end-to-end corpora={LAYOUTS[layout_i]} clients={clients} workers={hname} bulk={bulk} beside a parallel task with {beside} clients: {v[1]}",
                      {"layer": "E", "layout": layout_i, "clients": clients, "hosts": hname, "bulk": bulk, "beside": "twin" if twin else beside})


def e2e_cases(tier):
    for li in range(len(LAYOUTS)):
        for clients in (1, 2, 3, 5):
            for hname in ("1x1", "1x2", "2x1", "1x3"):
                for bulk in (1, 3, 1000):
                    if tier == "quick" and (bulk == 3 and hname in ("2x1",) or clients == 5 and bulk == 1):
                        continue
                    yield (li, clients, hname, bulk)
                    if bulk == 3 and hname in ("1x1", "1x2") and clients > 1:
                        yield (li, clients, hname, bulk, None, 1)
                        yield (li, clients, hname, bulk, None, "twin")
                        if tier == "thorough":
                            yield (li, clients, hname, bulk, None, 2)


def file_cases(tier):
    for li in range(len(LAYOUTS)):
        for clients in (1, 2, 3, 4, 5):
            for hname in HOSTS:
                for bulk in (1, 2, 3, 5, 1000):
                    for bm in (1, 2, 3):
                        if bm > 1 and bulk == 1000:
                            continue
                        for pct in (100, 75, 50, 34, 1):
                            if tier == "quick" and pct not in (100, 34) and (bm > 1 or hname in ("1x3",)):
                                continue
                            yield (li, clients, hname, bulk, bm, pct, None)
    for li in (3, 5, 6, 7, 8, 11):
        for clients in (1, 2, 3):
            for hname in ("1x1", "1x2"):
                for bulk in (1, 3):
                    # (recency > 0 biases the choice towards recently emitted ids; small values make extreme draws likely)
                    for conflicts in (("sequential", "index", 25), ("sequential", "update", 100), ("random", "index", 100), ("random", "update", 25),
                                      ("random", "update", 50, 0.02), ("random", "update", 25, 0.05), ("random", "index", 50, 0.2), ("random", "update", 50, 1.0)):
                        yield (li, clients, hname, bulk, 1, 100, conflicts)


# ------------------------------------------------------------------------------------------------ layer O (offset tables)


def large_track(nlines, tk, meta, revised=False):
    """revised: the corpus file replaces an earlier revision with the same number of lines but other byte positions, for which an
    offset table had already been built (the table is older than the new file and must be rebuilt)"""
    from esrally.track import track
    from esrally.utils import io as rio

    d = os.path.join(scratch(), f"large-{nlines}-{tk}-{int(meta)}-{int(revised)}")
    os.makedirs(d, exist_ok=True)
    path = os.path.join(d, "c0-f0.json")
    n = nlines // (2 if meta else 1)

    def content(tki, shift):
        out = []
        for k in range(n):
            if meta:
                out.append('{"index":{"_id":"m-c0f0d%d"}}\n' % k)
            out.append(json.dumps({"id": f"c0f0d{k}", "t": TEXTS[tki][: 1 + (k + shift) % 7]}, ensure_ascii=False) + "\n")
        return out

    if revised:
        with open(path, "w", encoding="utf-8") as f:
            f.writelines(content((tk + 1) % len(TEXTS), 3))
        rio.prepare_file_offset_table(path)
        old = os.stat(path + ".offset").st_mtime
    lines = content(tk, 0)
    with open(path, "w", encoding="utf-8") as f:
        f.writelines(lines)
    if revised:
        os.utime(path, (old + 10, old + 10))
    rio.prepare_file_offset_table(path)
    ref = {path: [l.encode("utf-8") for l in lines]}
    doc = track.Documents(track.Documents.SOURCE_FORMAT_BULK, document_file=path, number_of_documents=n, includes_action_and_meta_data=meta, target_index="idx0")
    return track.Track(name="t", corpora=[track.DocumentCorpus("corpus0", [doc])]), ref


def large_cases(tier):
    # (100000 lines: the second of two client groups starts exactly on an offset-table entry, line 50000)
    specs = [(100003, 2, False), (120007, 3, False), (50001, 1, False), (100004, 2, True), (100003, 1, False, True), (100000, 0, False), (200000, 1, True)]
    if tier == "thorough":
        specs += [(49999, 2, False), (50000, 3, False), (150001, 3, False), (200006, 2, True), (120007, 2, False, True), (100004, 3, True, True)]
    for spec in specs:
        for clients in (2, 3):
            for bulk in (1000, 4999):
                yield spec, clients, bulk


def _job(arg):
    import logging

    logging.disable(logging.CRITICAL)
    from esrally.utils import console

    console.init(quiet=True)
    kind, items = arg
    res = Result()
    if kind == "A":
        check_bounds(res)
    elif kind == "P":
        check_percentage(res)
    elif kind == "F":
        for it in items:
            check_files(*it, res)
    elif kind == "E":
        for it in items:
            check_e2e(*it[:4], res, beside=it[5] if len(it) > 5 else 0)
    else:
        for spec, clients, bulk in items:
            _S["large_spec"] = list(spec)
            lt = large_track(*spec)
            check_files(0, clients, "1x3" if clients == 3 else "1x2", bulk, 1, 100, None, res, large=lt)
            shutil.rmtree(os.path.dirname(next(iter(lt[1]))), ignore_errors=True)
    return res


def run(tier, seed):
    fc = list(file_cases(tier))
    lc = list(large_cases(tier))
    ec = list(e2e_cases(tier))
    jobs = [("A", None), ("P", None)] + [("F", ch) for ch in par.chunks(fc, par.NPROC * 4)] + [("O", [c]) for c in lc] + [("E", ch) for ch in par.chunks(ec, par.NPROC * 2)]
    res = par.pmap(_job, jobs, seed=seed)
    res.extra["file_cases"] = len(fc)
    res.extra["offset_table_cases"] = len(lc)
    res.extra["end_to_end_cases"] = len(ec)
    res.states = res.evaluations
    res.transitions = res.evaluations
    return res


def replay(data):
    import logging

    logging.disable(logging.CRITICAL)
    from esrally.utils import console

    console.init(quiet=True)
    res = Result()
    if data["layer"] == "A":
        check_bounds(res)
    elif data["layer"] == "P":
        check_percentage(res)
    elif data["layer"] == "E":
        check_e2e(data["layout"], data["clients"], data["hosts"], data["bulk"], res, beside=data.get("beside", 0))
    elif data.get("large"):
        spec = tuple(data["large"])
        _S["large_spec"] = list(spec)
        check_files(0, data["clients"], data["hosts"], data["bulk"], 1, 100, None, res, large=large_track(*spec))
    else:
        check_files(data["layout"], data["clients"], data["hosts"], data["bulk"], data["batch"], data["pct"], tuple(data["conflicts"]) if data["conflicts"] else None, res)
    return [v for lst in res.violations.values() for v in lst]
