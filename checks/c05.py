"""C05 -- iterations, time periods, warm-up, progress and pacing follow the task spec.

Same harness as C04 (the real worker stack on the virtual loop against the simulated node); every combination of a bounded
alphabet of loop-control, scheduler, throughput, ramp-up and service-time parameters; the tuples yielded by the real schedule
and the resulting samples are compared with the task specification.
"""
import itertools
import random

from mc import explore, loadgen, par
from mc.core import Result

ID = "C05"
LEVEL = "exploration"
RULE = (
    "loop control: warm-up/measurement iterations {None,0,1,2,3} x {1,2,3}, warm-up/time periods {0,1,2.5} x {1,3}, parameter-source "
    "bounded tasks, explicit iterations on finite sources of size {1, w+n-1, w+n, w+n+1, 20}, self-completing runners with explicit "
    "iterations; clients {1,2,4}; ramp-up {none,1,2} (time-based), ramp-up {2,8} inside parallel elements of 2..3 sub-tasks allocated by the "
    "real Allocator; scheduler "
    "{unthrottled, deterministic, poisson(seeded)}; target {2, 10, 0.25 ops/s, '20 docs/s', '2.5 ops/s', '0.5 ops/s', '12.5 docs/s', interval 0.25}; weight/unit {(1,ops),(5,docs),(3,ops)} incl. requests the runner reports as unsuccessful (first / second / all) and "
    "unit mismatch against an ops/s target; service-time words {(1/16), (1/2), (1, 1/16), (3)}. "
    "non-trivial = more than one request per client; distinct = configuration"
)
ASSUMPTIONS = [
    "scheduled times / sample types / progress = the tuples yielded by the real schedule generator (observed by wrapping ScheduleHandle.__call__)",
    "at a period boundary one request per client may fall on either side (as the statement allows); poisson pacing is compared with the "
    "same seeded random source for single-client tasks and checked for monotonicity otherwise",
]

WORDS = [(0.0625,), (0.5,), (1.0, 0.0625), (3.0,)]
TOL = 1e-9


def configs(tier):
    global WORDS
    if tier == "thorough":
        WORDS = [(0.0625,), (0.5,), (1.0,), (3.0,), (1.0, 0.0625), (0.0625, 3.0), (0.5, 0.5, 3.0), (3.0, 0.0625, 0.0625)]
    targets = [None, ("det", 2), ("det", 10), ("det", "20 docs/s"), ("det", ("interval", 0.25)), ("poisson", 2), ("poisson", 10),
               ("det", "2.5 ops/s"), ("det", "0.5 ops/s"), ("det", "12.5 docs/s"), ("det", 0.25)]
    wus = [(1, "ops"), (5, "docs"), (3, "ops"), (5, "docs", (0,)), (3, "ops", (0, 1, 2, 3, 4, 5)), (5, "docs", (1,)),
           # requests of one task that differ in weight: shrinking and growing again, growing and shrinking again
           (5, "docs", (), (5, 2, 5, 1)), (2, "docs", (), (2, 5, 2, 2)), (3, "ops", (), (3, 1, 4))]
    for clients in ((1, 2, 4) if tier == "quick" else (1, 2, 3, 4)):
        for word in WORDS:
            for tgt in targets:
                for wu in wus:
                    if tgt and isinstance(tgt[1], str) and wu[1] != tgt[1].split()[1].split("/")[0]:
                        continue
                    if tgt and tgt[1] in ("2.5 ops/s", "0.5 ops/s", "12.5 docs/s", 0.25) and tier == "quick" and (clients == 4 or word not in (WORDS[0], WORDS[2])):
                        continue
                    if wus.index(wu) >= 2:
                        # runners reporting several "ops" per request, and requests the runner reports as unsuccessful (with their weight):
                        # pacing and counts are those of any other request
                        if tgt and tgt[0] == "det" and word in (WORDS[0], WORDS[2]):
                            for w, n in ((None, 3), (1, 3)) + (((1, 5),) if len(wu) > 3 else ()):
                                yield ("iter", clients, word, tgt, wu, (w, n), None)
                        continue
                    for w in (None, 0, 1, 2, 3):
                        for n in (1, 2, 3):
                            yield ("iter", clients, word, tgt, wu, (w, n), None)
                    for wt in (0, 1, 2.5):
                        for t in (1, 3) + ((0,) if wt else ()):  # time-period 0: a warm-up-only time-based task
                            for ramp in (None, 1, 2):
                                if ramp and (clients == 1 or tier == "quick" and word != WORDS[0] and word != WORDS[2]):
                                    continue
                                yield ("time", clients, word, tgt, wu, (wt, t), ramp)
            # parameter source decides (finite source, no iterations / time period): progress comes from the source
            for tgt in (None, ("det", 10)):
                yield ("source", clients, word, tgt, (1, "ops"), (3,), None)
                # only warmup-iterations given: the finite source still ends the task, the first requests are warm-up
                for w in (1, 3, 5):
                    yield ("source", clients, word, tgt, (1, "ops"), (4, w), None)
            # explicit iterations on a finite parameter source: whichever ends first decides (source sizes below, at and above w + n)
            for w, n in ((None, 2), (1, 2), (2, 3)):
                for m in (1, (w or 0) + n - 1, (w or 0) + n, (w or 0) + n + 1, 20):
                    yield ("iter-source", clients, word, None, (1, "ops"), (w, n, m), None)
                    if word == WORDS[0]:
                        yield ("iter-source", clients, word, ("det", 10), (1, "ops"), (w, n, m), None)
            # a warm-up *period* without a time period: the finite parameter source ends the task, requests after the warm-up are normal
            for wt in (1, 2.5):
                for m in (3, 12):
                    yield ("time-source", clients, word, None, (1, "ops"), (wt, m), None)
            # runner that can report completion, but the task asks for explicit iterations
            for w, n in ((1, 2), (0, 3), (2, 1)):
                yield ("completing", clients, word, None, (1, "ops"), (w, n), None)
                yield ("completing", clients, word, ("det", 10), (1, "ops"), (w, n), None)


class CompletingRunner:
    """reports completion after 6 invocations -- later than any explicit iteration count used here.  One instance per client
    (runners that report completion are meant for single-client tasks), selected through the running asyncio task."""

    def __init__(self):
        self.counts = {}

    async def __aenter__(self):
        return self

    async def __aexit__(self, *a):
        return False

    def _n(self):
        import asyncio

        try:
            return self.counts.get(asyncio.current_task(), 0)
        except RuntimeError:
            return 0

    @property
    def completed(self):
        return self._n() >= 6

    @property
    def percent_completed(self):
        return None

    async def __call__(self, es, params):
        import asyncio

        t = asyncio.current_task()
        self.counts[t] = self.counts.get(t, 0) + 1
        await es.perform_request(method="GET", path=f"/verif/{params['task-key']}/{params['client-index-in-task']}/{params['k']}/0")
        return {"weight": 1, "unit": "ops"}

    def __repr__(self):
        return "verif-completing"


def build(cfg):
    kind, clients, word, tgt, wu, lc, ramp = cfg
    weight, unit = wu[:2]
    e = loadgen.setup()
    tparams = {}
    task_kw = {}
    if tgt:
        sched, val = tgt
        if isinstance(val, tuple):
            tparams["target-interval"] = val[1]
        else:
            tparams["target-throughput"] = val
        if sched == "poisson":
            task_kw["schedule"] = "poisson"
    op_params = {"weight": weight, "unit": unit}
    if len(wu) > 3:
        op_params["weight-sequence"] = list(wu[3])
    if len(wu) > 2:
        op_params["unsuccessful-at"] = list(wu[2])  # the runner reports success=False (with its weight) for these invocations
    if kind == "time-source":
        wt, m = lc
        task_kw["warmup_time_period"] = wt
        op_params["source-size"] = m
    elif kind == "iter-source":
        w, n, m = lc
        if w is not None:
            task_kw["warmup_iterations"] = w
        task_kw["iterations"] = n
        op_params["source-size"] = m
    elif kind in ("iter", "completing"):
        w, n = lc
        if w is not None:
            task_kw["warmup_iterations"] = w
        task_kw["iterations"] = n
    elif kind == "time":
        wt, t = lc
        task_kw["warmup_time_period"] = wt
        task_kw["time_period"] = t
        if ramp:
            task_kw["ramp_up_time_period"] = ramp
    else:
        op_params["source-size"] = lc[0]
        if len(lc) > 1:
            task_kw["warmup_iterations"] = lc[1]
    if "source-size" in op_params:
        op_params["parent-infinite"] = True
    task = loadgen.make_task("t", "t", clients=clients, op_params=op_params, params=tparams, **task_kw)
    if kind == "completing":
        e["runner"].register_runner("verif-completing-op", CompletingRunner(), async_runner=True)
        task.operation.type = "verif-completing-op"
    allocs = [(cid, loadgen.allocation(task, cid)) for cid in range(clients)]

    def behaviour(entry):
        _, _, _key, ci, k, _w = entry["target"].split("/")
        return {"service_time": word[(int(k) + int(ci)) % len(word)], "body": {}}

    return task, allocs, behaviour


def check(cfg, res):
    kind, clients, word, tgt, wu, lc, ramp = cfg
    weight, unit = wu[:2]
    e = loadgen.setup()
    N, W = e["metrics"].SampleType.Normal, e["metrics"].SampleType.Warmup
    task, allocs, behaviour = build(cfg)
    random.seed(4711)
    # horizon: a legitimate run of these configurations needs at most 20 requests per client (iterations, source sizes) or warm-up +
    # time period + ramp-up seconds; a task that does not end is reported when the virtual clock passes the horizon
    if kind == "time":
        horizon = 4 * (lc[0] + lc[1] + (ramp or 0)) + 8 * max(word) + 20
    else:
        pace = 0.0
        if tgt:
            val = tgt[1]
            rate = 1.0 / val[1] if isinstance(val, tuple) else float(val.split()[0]) if isinstance(val, str) else float(val)
            pace = max([weight] + list(wu[3] if len(wu) > 3 else ())) * clients / rate
        horizon = 40 * (max(word) + pace) + 20
    r = loadgen.run_worker(allocs, behaviour, on_error="continue", horizon=horizon)
    v = None
    interval = None
    if r.error is not None or r.loop_errors:
        v = ("raises", f"{type(r.error).__name__ if r.error else ''}: {r.error} {r.loop_errors[:1]}")
    else:
        handles = {h.task_allocation.client_index_in_task: h for h in r.handles}
        by_client = {}
        for s in r.samples:
            by_client.setdefault(s.client_id, []).append(s)
        logs = {}
        for en in r.log:
            logs.setdefault(en["client_id"], []).append(en)
        # expected pacing interval
        interval = None
        if tgt:
            val = tgt[1]
            if isinstance(val, tuple):
                rate, tunit = 1.0 / val[1], "ops/s"
            elif isinstance(val, str):
                rate, tunit = float(val.split()[0]), val.split()[1]
            else:
                rate, tunit = float(val), "ops/s"
            w_eff = weight if f"{unit}/s" == tunit else 1
            interval = w_eff * clients / rate
            wseq = wu[3] if len(wu) > 3 else None
        for cid in range(clients):
            ss = by_client.get(cid, [])
            lg = logs.get(cid, [])
            ys = handles[cid]._verif_yields if cid in handles else []
            ctx = f"client {cid}"
            if len(ss) != len(lg):
                v = ("samples-vs-requests", f"{ctx}: {len(ss)} samples, {len(lg)} requests")
                break
            types = [s.sample_type for s in ss]
            prog = [s.percent_completed for s in ss]
            sched = [y[0] for y in ys]
            if any(a == N and b == W for a, b in zip(types, types[1:])):
                v = ("sample-type-regress", f"{ctx}: {types}")
            elif any(p is not None and not (-TOL <= p <= 1 + TOL) for p in prog):
                v = ("progress-range", f"{ctx}: {prog}")
            elif any(a is not None and b is not None and b < a - TOL for a, b in zip(prog, prog[1:])):
                v = ("progress-decreases", f"{ctx}: {prog}")
            elif any(b < a - TOL for a, b in zip(sched, sched[1:])):
                v = ("scheduled-times-decrease", f"{ctx}: {sched}")
            if v:
                break
            if kind in ("iter", "completing"):
                w, n = lc
                w = w or 0
                if len(ss) != w + n:
                    v = ("iteration-count", f"{ctx}: {len(ss)} requests for warmup-iterations={lc[0]} iterations={n}")
                elif types != [W] * w + [N] * n:
                    v = ("warmup-flags", f"{ctx}: {types} for warmup-iterations={lc[0]} iterations={n}")
                elif abs(prog[-1] - 1.0) > TOL:
                    v = ("final-progress", f"{ctx}: progress ends at {prog[-1]}")
            elif kind == "time-source":
                wt, m = lc
                ends = [en["t_end"] for en in lg]
                if len(ss) != m:
                    v = ("source-size", f"{ctx}: {len(ss)} requests for a parameter source of {m}")
                else:
                    for k, s_ in enumerate(ss):
                        prev_end = ends[k - 1] if k else 0.0
                        if prev_end >= wt + TOL and s_.sample_type != N:
                            v = ("warmup-flag-after-warmup", f"{ctx} request {k}: previous request ended at {prev_end} >= warm-up {wt} but flagged {s_.sample_type}")
                        elif ends[k] < wt - TOL and s_.sample_type != W:
                            v = ("normal-flag-within-warmup", f"{ctx} request {k}: completed at {ends[k]} < warm-up {wt} but flagged {s_.sample_type}")
                        if v:
                            break
            elif kind == "iter-source":
                w, n, m = lc
                w = w or 0
                want_n = min(w + n, m)
                if len(ss) != want_n:
                    v = ("iteration-count-finite-source", f"{ctx}: {len(ss)} requests for warmup-iterations={lc[0]} iterations={n} on a parameter source of {m} (expected {want_n})")
                elif types != ([W] * w + [N] * n)[:want_n]:
                    v = ("warmup-flags", f"{ctx}: {types} for warmup-iterations={lc[0]} iterations={n}, source of {m}")
                elif m >= w + n and abs(prog[-1] - 1.0) > TOL:
                    v = ("final-progress", f"{ctx}: progress ends at {prog[-1]}")
            elif kind == "time":
                wt, t = lc
                D = wt + t
                delay = ramp * (cid / clients) if ramp else 0.0
                issues = [en["t_start"] for en in lg]
                ends = [en["t_end"] for en in lg]
                if not lg:
                    v = ("no-request", f"{ctx}")
                elif abs(issues[0] - delay) > TOL and not (tgt and False):
                    v = ("ramp-up-delay", f"{ctx}: first request at {issues[0]}, ramp-up delay is {delay}")
                elif sum(1 for x in issues if x >= D - TOL) > 1:
                    v = ("issued-after-period", f"{ctx}: requests issued at {issues} but warm-up+time period ends at {D}")
                elif any(x >= D + TOL or (delay == 0.0 and x >= D) for x in ends[:-1]):
                    # (a completion one ulp *before* the end of the period legitimately allows one more request: exact comparison where
                    # the client's clock starts at 0, tolerance in the lenient direction otherwise)
                    v = ("continues-after-period", f"{ctx}: request completions {ends}, period ends at {D}")
                elif ends[-1] < D - TOL:
                    v = ("stops-before-period", f"{ctx}: last request completed at {ends[-1]} < {D}")
                else:
                    for k, s in enumerate(ss):
                        prev_end = ends[k - 1] if k else 0.0
                        if prev_end >= wt - TOL and s.sample_type != N and not (prev_end < wt + TOL):
                            v = ("warmup-flag-after-warmup", f"{ctx} request {k}: previous request ended at {prev_end} >= warm-up {wt} but flagged {s.sample_type}")
                        elif ends[k] < wt - TOL and s.sample_type != W:
                            v = ("normal-flag-within-warmup", f"{ctx} request {k}: completed at {ends[k]} < warm-up {wt} but flagged {s.sample_type}")
                        if v:
                            break
            else:
                w = lc[1] if len(lc) > 1 else 0
                if len(ss) != lc[0]:
                    v = ("source-size", f"{ctx}: {len(ss)} requests for a parameter source of {lc[0]}" + (f" (warmup-iterations={w}, no iterations: the source ends the task)" if len(lc) > 1 else ""))
                elif types != ([W] * w + [N] * lc[0])[: lc[0]]:
                    v = ("warmup-flags", f"{ctx}: {types} for warmup-iterations={w} on a parameter source of {lc[0]}")
            if v:
                break
            # pacing
            if tgt and len(sched) > 1 and not (kind == "time" and False):
                if tgt[0] == "det":
                    diffs = [b - a for a, b in zip(sched, sched[1:])]
                    if wseq:
                        # the request after one of weight w is scheduled w*C/T later
                        want = [(wseq[j % len(wseq)] if f"{unit}/s" == tunit else 1) * clients / rate for j in range(len(diffs))]
                        if any(abs(d - x) > 1e-9 for d, x in zip(diffs, want)):
                            v = ("pacing-interval-varying-weight", f"{ctx}: scheduled at {sched}, request weights {list(wseq)} {unit} (cycling), {clients} clients, target {tgt[1]}: expected gaps {want}")
                    elif any(abs(d - interval) > 1e-9 for d in diffs):
                        v = ("pacing-interval", f"{ctx}: scheduled at {sched}, expected {interval} s apart (weight {weight} {unit}, {clients} clients, target {tgt[1]})")
                elif clients == 1:
                    random.seed(4711)
                    exp = [0.0]
                    rate_pc = 1.0 / interval
                    for _ in sched[1:]:
                        exp.append(exp[-1] + random.expovariate(rate_pc))
                    if any(abs(a - b) > 1e-9 for a, b in zip(sched, exp)):
                        v = ("poisson-pacing", f"{ctx}: scheduled at {sched}, seeded reference {exp}")
                elif any(b <= a for a, b in zip(sched[1:], sched[2:])):
                    v = ("poisson-not-increasing", f"{ctx}: {sched}")
            elif not tgt and any(x != 0 for x in sched):
                v = ("unthrottled-has-schedule", f"{ctx}: {sched}")
            if v:
                break
    nreq = len(r.samples)
    res.case(
        case_repr={"loop": kind, "clients": clients, "service_times": list(word), "target": tgt, "weight_unit": [weight, unit], "unsuccessful_at": list(wu[2]) if len(wu) > 2 else [], "loop_params": lc, "ramp_up": ramp}
        if res.sample_now(4999)
        else None,
        nontrivial_key=cfg if nreq > clients else None,
        outcome_key=(kind, nreq, v[0] if v else "ok", tuple(round(s.latency, 5) for s in r.samples[:4])),
    )
    if v:
        res.violation(
            f"schedule:{v[0]}:{kind}" + (":unit-mismatch" if tgt and interval is not None and f"{unit}/s" != "ops/s" and not isinstance(tgt[1], str) else ""),
            f"{kind} clients={clients} service_times={list(word)} target={tgt} weight/unit={weight}/{unit} params={lc} ramp-up={ramp}: {v[1]}",
            {"cfg": [kind, clients, list(word), list(tgt) if tgt else None, [weight, unit] + ([list(wu[2])] if len(wu) > 2 else []) + ([list(wu[3])] if len(wu) > 3 else []), list(lc), ramp]},
        )


def par_ramp_configs(tier):
    """ramp-up inside a parallel element: the allocations come from the real Allocator, so the client numbering and the total that the
    ramp-up delay is computed from are the real ones"""
    for sizes in ((1, 1), (2, 2), (1, 3), (2, 1, 1)):
        for ramp in (2, 8):
            for word in ((0.0625,), (0.5,)):
                for cap in (None,) if tier == "quick" else (None, sum(sizes)):
                    yield ("par-ramp", sizes, word, ramp, cap)


def check_par_ramp(cfg, res):
    _, sizes, word, ramp, cap = cfg
    e = loadgen.setup()
    from esrally.track import track

    tasks = [loadgen.make_task(f"t{j}", f"t{j}", clients=c, warmup_time_period=ramp, time_period=1, ramp_up_time_period=ramp) for j, c in enumerate(sizes)]
    par_el = track.Parallel(tasks, clients=cap)
    matrix = e["driver"].Allocator([par_el]).allocations
    allocs = []
    for g, row in enumerate(matrix):
        tas = [x for x in row if isinstance(x, e["driver"].TaskAllocation)]
        if len(tas) == 1:
            allocs.append((g, tas[0]))
    total = sum(sizes)
    r = loadgen.run_worker(allocs, lambda entry: {"service_time": word[0], "body": {}}, on_error="continue", horizon=10_000.0)
    v = None
    if r.error is not None or r.loop_errors:
        v = ("raises", f"{type(r.error).__name__ if r.error else ''}: {r.error} {r.loop_errors[:1]}")
    elif len(allocs) != total:
        v = ("allocation", f"{len(allocs)} clients with exactly one task for {total} requested")
    else:
        first = {}
        for en in r.log:
            first.setdefault(en["client_id"], en["t_start"])
        for g in range(total):
            want = ramp * g / total
            if g not in first:
                v = ("no-request", f"client {g} issued no request")
            elif abs(first[g] - want) > TOL:
                v = ("ramp-up-delay", f"client {g} of {total} (parallel of tasks with {list(sizes)} clients, ramp-up {ramp}): first request at {first[g]}, expected {want}")
            if v:
                break
    res.case(
        case_repr={"loop": "par-ramp", "sub_task_clients": list(sizes), "ramp_up": ramp, "service_times": list(word), "parallel_clients": cap} if res.sample_now(7) else None,
        nontrivial_key=cfg,
        outcome_key=("par-ramp", len(r.samples), v[0] if v else "ok"),
    )
    if v:
        res.violation(f"schedule:{v[0]}:parallel", f"parallel ramp-up {cfg[1:]}: {v[1]}", {"par_ramp": [list(sizes), list(word), ramp, cap]})


def driver_progress_configs(tier):
    for clients in (2, 3):
        for per_client in ((2, 3) if tier == "thorough" or clients == 2 else (2,)):
            yield ("driver-progress", clients, per_client)


def check_driver_progress(cfg, res):
    """what the user sees: the real Driver.update_samples / update_progress_message fed with every arrival history of the clients' samples.
    Once every client of the step has reported, the displayed progress never decreases and ends at 100 % (before that the display is an
    average over the clients heard of so far, which the statement does not pin down)."""
    import itertools as it

    from checks import sched_common as sc
    from esrally.driver import driver

    e = loadgen.setup()
    _, clients, per_client = cfg
    task = loadgen.make_task("t", "t", clients=clients, iterations=per_client + 1)
    N = e["metrics"].SampleType.Normal

    def sample(c, j):
        # sample j of client c: progress (j + 1) / (per_client + 1)
        return driver.Sample(c, 1000.0 + j, 50.0 + j, 50.0, task, N, None, 0.0, 0.0, 0.0, None, 1, "ops", float(j), (j + 1) / (per_client + 1))

    rest = [(c, j) for c in range(clients) for j in range(1, per_client + 1)]
    seqs = set()
    for perm in it.permutations(range(len(rest))):
        seq = tuple(rest[i] for i in perm)
        if all(seq.index((c, j)) < seq.index((c, j + 1)) for c in range(clients) for j in range(1, per_client)):
            seqs.add(seq)
    for seq in sorted(seqs):
        for cuts in it.product((0, 1), repeat=len(seq) - 1):
            batches, cur = [], [seq[0]]
            for x, cut in zip(seq[1:], cuts):
                if cut:
                    batches.append(cur)
                    cur = []
                cur.append(x)
            batches.append(cur)
            v = None
            try:
                d = object.__new__(driver.Driver)
                d.quiet = False
                d.tasks_per_join_point = [[task]]
                d.current_step = 0
                d.raw_samples = []
                d.most_recent_sample_per_client = {}
                d.progress_reporter = sc._Recorder()
                shown = []
                for batch in [[(c, 0) for c in range(clients)]] + batches:
                    d.update_samples([sample(c, j) for c, j in batch])
                    d.update_progress_message()
                    shown.append(d.progress_reporter.lines[-1][1])
            except (AttributeError, TypeError) as ex:
                res.count("driver_progress_oracle_skipped")
                return
            pct = [int(x.strip("[]% done")) for x in shown]
            if any(b < a for a, b in zip(pct, pct[1:])):
                v = ("displayed-progress-decreases", f"display {shown}")
            elif any(not 0 <= x <= 100 for x in pct):
                v = ("displayed-progress-range", f"display {shown}")
            elif pct[-1] != 100:
                v = ("displayed-progress-final", f"every client has delivered its last sample, display {shown}")
            res.case(
                case_repr={"loop": "driver-progress", "clients": clients, "batches": [[list(x) for x in b] for b in batches], "display": shown} if res.sample_now(1201) else None,
                nontrivial_key=("dp", clients, per_client, seq, cuts),
                outcome_key=("dp", tuple(pct)[-3:], v[0] if v else "ok"),
            )
            if v:
                res.violation(f"schedule:{v[0]}:driver", f"{clients} clients, batches of (client, sample) after the first round {batches}: {v[1]}",
                              {"driver_progress": [clients, per_client]})
                return


def _job(cfgs):
    res = Result()
    for cfg in cfgs:
        if cfg[0] == "driver-progress":
            check_driver_progress(cfg, res)
        elif cfg[0] == "par-ramp":
            check_par_ramp(cfg, res)
        else:
            check(cfg, res)
    return res


def run(tier, seed):
    cfgs = list(configs(tier)) + list(par_ramp_configs(tier)) + list(driver_progress_configs(tier))
    res = par.pmap(_job, par.chunks(cfgs, par.NPROC * 8), seed=seed)
    res.extra["configurations"] = len(cfgs)
    res.states = res.evaluations
    res.transitions = res.evaluations
    return res


def replay(data):
    res = Result()
    if "driver_progress" in data:
        check_driver_progress(("driver-progress", data["driver_progress"][0], data["driver_progress"][1]), res)
        return [v for lst in res.violations.values() for v in lst]
    if "par_ramp" in data:
        pr = data["par_ramp"]
        check_par_ramp(("par-ramp", tuple(pr[0]), tuple(pr[1]), pr[2], pr[3]), res)
        return [v for lst in res.violations.values() for v in lst]
    c = data["cfg"]
    tgt = None
    if c[3]:
        val = c[3][1]
        tgt = (c[3][0], tuple(val) if isinstance(val, list) else val)
    wu = tuple(c[4][:2]) + ((tuple(c[4][2]),) if len(c[4]) > 2 else ()) + ((tuple(c[4][3]),) if len(c[4]) > 3 else ())
    check((c[0], c[1], tuple(c[2]), tgt, wu, tuple(c[5]), c[6]), res)
    return [v for lst in res.violations.values() for v in lst]
