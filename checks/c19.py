"""C19 -- fast-path response parsing agrees with full JSON parsing.

Bounded-exhaustive generation of response texts (bulk, search pages, scroll pages, composite aggregations) from a JSON
grammar with an adversarial string alphabet, key-order permutations, escaped / raw non-ASCII and whitespace styles; the real
parse / BulkIndex.simple_stats / detailed_stats / SearchAfterExtractor / CompositeAggExtractor / Query runner are compared
with json.loads of the same bytes.
"""
import asyncio
import io
import itertools
import json

from mc import vclock

vclock.install()

from mc import par, vloop  # noqa: E402
from mc.core import Result  # noqa: E402
from mc.vclock import CLOCK  # noqa: E402

ID = "C19"
LEVEL = "exploration"
RULE = (
    "response texts generated from a JSON grammar: bulk (0..3 items: status x _shards x error form x adversarial reason strings, "
    "consistent and shard-failure-only 'errors' flags, optional ingest_took), search / scroll pages (hits.total int or object, 0..3 hits "
    "with sort arrays over an adversarial alphabet, optional matched_queries / inner_hits / late _source after sort, pit_id, "
    "_scroll_id), composite aggregations (after_key present/absent, nested path, source names with dots); every rotation and reversal of the top-level keys; "
    "serialisations compact / spaced / pretty x raw UTF-8 / \\u-escaped; multi-page scripts through the real Query runner; two composite-aggregation operations with different aggregation paths running concurrently through one shared Query instance (16 page-count pairs x 4 request-delay pairs); bulk responses of 40 and 1500 items (above 1 KiB / 64 KiB). "
    "non-trivial = text with at least one item or hit; distinct = the text"
)
ASSUMPTIONS = [
    "reference parser: json.loads of the same bytes; an item failed iff status > 299 or _shards.failed > 0 (Rally's own detailed path)",
    "'every well-formed JSON' is the stated grammar and alphabet; duplicate keys and nested arrays inside sort values are not generated",
]

S = ["a", '"', "\\", "]", "[", "}", ",", "sort", '"sort"', '"sort":[1]', "errors", "é", "\U0001F600", 'x"]y']
STYLES = [("compact", False), ("compact", True), ("spaced", False), ("pretty", False)]


def dumps(obj, style, ascii_):
    if style == "compact":
        return json.dumps(obj, separators=(",", ":"), ensure_ascii=ascii_)
    if style == "spaced":
        return json.dumps(obj, separators=(", ", ": "), ensure_ascii=ascii_)
    # Elasticsearch ?pretty style: '"key" : value'
    return json.dumps(obj, indent=2, separators=(",", " : "), ensure_ascii=ascii_)


def orders(keys):
    keys = list(keys)
    out = []
    for i in range(len(keys)):
        rot = keys[i:] + keys[:i]
        out.append(rot)
        out.append(list(reversed(rot)))
    seen, uniq = set(), []
    for o in out:
        if tuple(o) not in seen:
            seen.add(tuple(o))
            uniq.append(o)
    return uniq


def reorder(d, order):
    return {k: d[k] for k in order if k in d}


# ------------------------------------------------------------------------------------------------ bulk


def item(action, status, shards, err):
    data = {"_index": "i", "_id": "1", "status": status}
    if status < 300:
        data["result"] = "created" if status == 201 else "updated"
    if shards is not None:
        data["_shards"] = {"total": 2, "successful": 2 - shards, "failed": shards}
    if err is not None:
        data["error"] = err
    return {action: data}


def item_failed(it):
    data = next(iter(it.values()))
    return data["status"] > 299 or ("_shards" in data and data["_shards"]["failed"] > 0)


def bulk_docs(tier):
    statuses = [(201, "index"), (200, "update"), (409, "create"), (429, "index"), (500, "delete")]
    errforms = [None] + [{"type": "t", "reason": s} for s in S] + ["plain string error", {"type": "no_reason"}]
    one = []
    for status, action in statuses:
        for shards in (None, 0, 1):
            for err in errforms:
                if status < 300 and err is not None:
                    continue
                one.append(item(action, status, shards, err))
    yield []
    for a in one:
        yield [a]
    red = []
    red_status = ((201, "index"), (429, "index"), (500, "delete")) if tier == "quick" else statuses
    red_shards = (None, 1) if tier == "quick" else (None, 0, 1)
    red_errs = (None, {"type": "t", "reason": "a"}, {"type": "t", "reason": '"sort":[1]'}, "str") if tier == "quick" else (
        None, {"type": "t", "reason": "a"}, {"type": "t", "reason": '"sort":[1]'}, "str", {"type": "no_reason"}, {"type": "t", "reason": 'x"]y'}, {"type": "t", "reason": "é"})
    for status, action in red_status:
        for shards in red_shards:
            for err in red_errs:
                if status < 300 and err is not None:
                    continue
                red.append(item(action, status, shards, err))
    for a, b in itertools.product(red, repeat=2):
        yield [a, b]
    red3 = [item("index", 201, None, None), item("index", 429, None, {"type": "t", "reason": "a"}), item("index", 429, None, {"type": "t", "reason": "a"}),
            item("create", 409, 0, {"type": "u", "reason": "errors"})]
    for combo in itertools.product(red3, repeat=3):
        yield list(combo)
    # realistic sizes: responses well above 1 KiB and above the 64 KiB the streaming parser reads at a time, the failed item first / last / absent
    ok, bad = item("index", 201, None, None), item("index", 429, None, {"type": "t", "reason": "a"})
    for n in (40, 1500):
        yield [ok] * n
        yield [ok] * (n - 1) + [bad]
        yield [bad] + [ok] * (n - 1)


def check_bulk(items, flag_mode, order, style, ascii_, ingest, res):
    from esrally.driver import runner

    failed = sum(1 for it in items if item_failed(it))
    hard_failed = sum(1 for it in items if next(iter(it.values()))["status"] > 299)
    errors_flag = hard_failed > 0 if flag_mode == "es" else failed > 0
    doc = {"took": 30, "errors": errors_flag, "items": items}
    if ingest:
        doc["ingest_took"] = 5
    text = dumps(reorder(doc, order), style, ascii_)
    raw = text.encode("utf-8")
    full = json.loads(raw)
    n = len(items)
    b = runner.BulkIndex()
    v = None
    feats = []
    if errors_flag != (failed > 0):
        feats.append("shard-failures-with-errors-false")
    try:
        for unit in ("docs", "ops"):
            st = b.simple_stats(n, unit, io.BytesIO(raw))
            want_success = failed == 0
            if st.get("success") != want_success:
                v = ("bulk-fast:success-flag", f"fast path success={st.get('success')} but {failed} of {n} items failed")
            elif st.get("error-count") != failed:
                v = ("bulk-fast:error-count", f"fast path error-count={st.get('error-count')}, {failed} items failed")
            elif st.get("success-count") != n - failed and not (unit != "docs" and failed == 0 and st.get("success-count") is None):
                v = ("bulk-fast:success-count", f"fast path success-count={st.get('success-count')} (unit {unit}), {n - failed} items succeeded")
            elif st.get("took") != full["took"]:
                v = ("bulk-fast:took", f"took={st.get('took')}")
            elif (failed > 0) != ("error-type" in st):
                v = ("bulk-fast:error-type", f"{st}")
            if v:
                break
    except Exception as e:  # noqa
        v = ("bulk:raises-" + type(e).__name__, f"{type(e).__name__}: {e}")
    # the detailed path is judged on its own (a finding on the fast path must not mask it)
    v2 = None
    try:
        params = {"body": "\n".join(['{"index":{}}', '{"a":1}'] * n), "action-metadata-present": True}
        dt = b.detailed_stats(params, full)
        if dt["success"] != (failed == 0) or dt["error-count"] != failed or dt["success-count"] != n - failed:
            v2 = ("bulk-detailed:counts", f"detailed path {dt['success']}/{dt['success-count']}/{dt['error-count']}, items failed {failed} of {n}")
        elif sum(c["item-count"] for c in dt["ops"].values()) != n:
            v2 = ("bulk-detailed:ops", f"{dt['ops']}")
        elif ("ingest_took" in dt) != ingest or dt.get("took") != 30:
            v2 = ("bulk-detailed:took", f"{dt}")
    except Exception as e:  # noqa
        v2 = ("bulk-detailed:raises-" + type(e).__name__, f"{type(e).__name__}: {e}")
    if v2:
        res.violation(
            f"{v2[0]}:{'+'.join(feats) or 'plain'}",
            f"{v2[1]}; response {text[:300]}",
            {"kind": "bulk", "items": items, "flag_mode": flag_mode, "order": order, "style": style, "ascii": ascii_, "ingest": ingest},
        )
    res.case(
        case_repr={"bulk_response": text[:400]} if res.sample_now(7919) else None,
        nontrivial_key=text if items else None,
        outcome_key=("bulk", failed, n, v[0] if v else "ok", v2[0] if v2 else "ok"),
    )
    if v:
        res.violation(
            f"{v[0]}:{'+'.join(feats) or 'plain'}",
            f"{v[1]}; response {text[:300]}",
            {"kind": "bulk", "items": items, "flag_mode": flag_mode, "order": order, "style": style, "ascii": ascii_, "ingest": ingest},
        )


# ------------------------------------------------------------------------------------------------ search pages

SORTS = [
    [1],
    [1609780186, "2"],
    [1.5, -1],
    ["a]b", 2],
    ["é"],
    ["\u6771\u4eac", 1],
    ['"sort":[1]'],
    ['6" nail', 2],
    ["x\\", 3],
    [9007199254740993, None],
    ["[", "}", ","],
]
AFTER = [None, "matched_queries", "inner_hits", "late_source", "late_source_string", "late_source_presort", "aggs_max_sort"]


def hit(i, sort, after):
    # (multi-byte text before the sort key: in a raw UTF-8 response byte offsets and character offsets differ)
    h = {"_index": "idx", "_id": str(i), "_score": None, "_source": {"f": i, "took": 99, "timed_out": "x", "city": "Z\u00fcrich \u6771\u4eac \U0001F600"}}
    if sort is not None:
        h["sort"] = sort
    if after == "matched_queries":
        h["matched_queries"] = ["sort", "q1"]
    elif after == "inner_hits":
        h["inner_hits"] = {"c": {"hits": {"total": {"value": 1, "relation": "eq"}, "hits": [{"_id": "n", "sort": [42]}]}}}
    elif after == "late_source":
        src = h.pop("_source")
        src["sort"] = "by-name"
        h["_source"] = src
    elif after == "late_source_presort":
        # a key that merely ENDS in sort, after the sort key (not the token "sort")
        src = h.pop("_source")
        src["presort"] = [9, "x"]
        h["_source"] = src
    elif after == "late_source_string":
        src = h.pop("_source")
        src["note"] = 'the "sort" key'
        h["_source"] = src
    return h


def search_docs(tier):
    """yields (doc dict, feature list)"""
    for total_form in ("int", "object", "gte"):
        for nh in (0, 1, 2, 3):
            sort_choices = SORTS if (nh in (1, 2) or tier == "thorough") else SORTS[:3]
            for sort in sort_choices if nh else [None]:
                for after in AFTER if nh else [None]:
                    for earlier_sort in (([1], ["a]b", 1]) if tier == "quick" else ([1], ["a]b", 1], ['"sort":[1]'], None)) if nh >= 2 else [None]:
                        hits = []
                        for i in range(nh):
                            last = i == nh - 1
                            hits.append(hit(i, sort if last else earlier_sort, after if last else None))
                        total = 11 if total_form == "int" else {"value": 11, "relation": "eq" if total_form == "object" else "gte"}
                        doc = {
                            "took": 7,
                            "timed_out": nh == 2,
                            "_shards": {"total": 3, "successful": 3, "skipped": 0, "failed": 0},
                            "hits": {"total": total, "max_score": None, "hits": hits},
                        }
                        feats = []
                        if after == "aggs_max_sort":
                            # Elasticsearch renders aggregations after the hits; one of them is called max_sort
                            doc["aggregations"] = {"max_sort": {"value": 3.0}, "by_sort": {"buckets": [{"key": [7], "doc_count": 1}]}}
                        if sort is not None and any(isinstance(x, str) and "]" in x for x in sort):
                            feats.append("bracket-in-sort-value")
                        if sort is not None and any(isinstance(x, str) and '"sort"' in x for x in sort):
                            feats.append("sort-token-in-sort-value")
                        if after in ("late_source_presort", "aggs_max_sort"):
                            feats.append("key-ending-in-sort-after-last-sort")
                        elif after:
                            feats.append("sort-token-after-last-sort")
                        yield doc, feats
    # no sort at all / pit / scroll ids
    base = {"took": 1, "timed_out": False, "_shards": {"total": 1, "successful": 1, "skipped": 0, "failed": 0},
            "hits": {"total": {"value": 2, "relation": "eq"}, "max_score": 1.0, "hits": [hit(0, None, None), hit(1, None, None)]}}
    yield base, ["no-sort"]
    yield dict(base, pit_id="cGl0LWlké", _scroll_id="c2Nyb2xs"), ["no-sort"]
    yield dict({"pit_id": "p1", "_scroll_id": "s1"}, **base), ["no-sort"]


def lookup(doc, path):
    cur = doc
    for k in path.split("."):
        if not isinstance(cur, dict) or k not in cur:
            return ("missing",)
        cur = cur[k]
    return ("value", cur)


def check_search(doc, feats, order, style, ascii_, res):
    from esrally import exceptions
    from esrally.driver import runner

    text = dumps(reorder(doc, order), style, ascii_)
    raw = text.encode("utf-8")
    full = json.loads(raw)
    feats = list(feats)
    if style == "pretty":
        feats.append("pretty-whitespace")
    v = None
    try:
        # 1. selective property extraction, as the runners call it
        for props, lists in (
            (["hits.total", "hits.total.value", "hits.total.relation", "timed_out", "took", "_shards.total", "_shards.successful", "_shards.skipped", "_shards.failed"], None),
            (["_scroll_id", "hits.total", "hits.total.value", "hits.total.relation", "timed_out", "took"], ["hits.hits"]),
            (["timed_out", "took"], ["hits.hits"]),
        ):
            got = runner.parse(io.BytesIO(raw), list(props), list(lists) if lists else None)
            for p in props:
                lk = lookup(full, p)
                if lk[0] == "missing":
                    if p in got and got[p] is not None:
                        v = ("parse:phantom-property", f"property {p} is not in the response but parse returned {got[p]!r}")
                elif isinstance(lk[1], (dict, list)):
                    continue
                elif p not in got or got[p] != lk[1] or type(got[p]) is not type(lk[1]) and not (isinstance(got[p], (int, float)) and isinstance(lk[1], (int, float))):
                    v = ("parse:property-value", f"property {p}: parse returned {got.get(p, '<absent>')!r}, full parse has {lk[1]!r}")
            if lists and v is None:
                want_empty = len(full["hits"]["hits"]) == 0
                if got.get("hits.hits") is not want_empty:
                    v = ("parse:list-emptiness", f"hits.hits empty={want_empty} but parse says {got.get('hits.hits')!r}")
            if v:
                break
        # 1b. several flat objects extracted by one call (each keeps its own content)
        if v is None:
            objs = [o for o in ("_shards", "hits.total") if isinstance(lookup(full, o)[1] if lookup(full, o)[0] != "missing" else None, dict)]
            if objs:
                got = runner.parse(io.BytesIO(raw), ["took"], None, list(objs))
                for o in objs:
                    if got.get(o) != lookup(full, o)[1]:
                        v = ("parse:flat-object", f"object {o} (requested together with {objs}): parse returned {got.get(o)!r}, full parse has {lookup(full, o)[1]!r}")
                        break
        # 2. search_after cursor
        if v is None:
            want_sort = full["hits"]["hits"][-1].get("sort") if full["hits"]["hits"] else None
            has_pit = "pit_id" in full
            ext = runner.SearchAfterExtractor()
            for hits_total in (None, 11):
                try:
                    parsed, last_sort = ext(io.BytesIO(raw), has_pit, hits_total)
                except Exception as e:  # noqa
                    v = ("search_after:raises-" + type(e).__name__, f"{type(e).__name__}: {e}")
                    break
                if last_sort != want_sort:
                    v = ("search_after:cursor-" + ("none" if last_sort is None else "wrong"), f"extractor returned {last_sort!r}, last hit's sort is {want_sort!r}")
                    break
                tv = full["hits"]["total"]
                want_total = tv["value"] if isinstance(tv, dict) else tv
                want_rel = tv["relation"] if isinstance(tv, dict) else "eq"
                if parsed.get("took") != full["took"] or parsed.get("timed_out") != full["timed_out"]:
                    v = ("search_after:took-timed-out", f"{parsed}")
                elif hits_total is None and (parsed.get("hits.total.value") != want_total or parsed.get("hits.total.relation") != want_rel):
                    v = ("search_after:hits-total", f"{parsed} vs total {tv}")
                elif has_pit and parsed.get("pit_id") != full["pit_id"]:
                    v = ("search_after:pit-id", f"{parsed.get('pit_id')!r}")
                if v:
                    break
    except Exception as e:  # noqa
        v = ("search:raises-" + type(e).__name__, f"{type(e).__name__}: {e}")
    res.case(
        case_repr={"search_response": text[:500]} if res.sample_now(4999) else None,
        nontrivial_key=text if full["hits"]["hits"] else None,
        outcome_key=("search", len(full["hits"]["hits"]), v[0] if v else "ok", tuple(feats)),
    )
    if v:
        res.violation(
            f"{v[0]}:{'+'.join(sorted(feats)) or 'plain'}",
            f"{v[1]}; response {text[:400]}",
            {"kind": "search", "doc": doc, "feats": feats, "order": order, "style": style, "ascii": ascii_},
        )


# ------------------------------------------------------------------------------------------------ composite aggregation


def composite_docs():
    for after in (None, {"k": "v"}, {"k": "a]b", "n": 3}, {"k": "é", "b": True}, {"a": '"after_key"', "z": 1.5},
                  {"host.name": "h1", "source.ip": "10.0.0.1", "destination.ip": "10.0.0.2"}, {"a.b.c": 1, "c": 2, "b.c": None},
                  # a 64-bit value (date_nanos, hash) that a double cannot hold, a negative and a fractional number
                  {"ts": 9007199254740993, "neg": -3, "frac": 0.1}):
        for path in (["c"], ["outer", "c"]):
            agg = {"buckets": [{"key": {"k": "x"}, "doc_count": 3}]}
            if after is not None:
                agg = {"after_key": after, "buckets": agg["buckets"]}
            node = agg
            for p in reversed(path[1:]):
                node = {"doc_count": 1, p: node}
            aggs = {path[0]: node} if len(path) == 1 else {path[0]: {"doc_count": 5, path[1]: agg}}
            for total in (5, {"value": 5, "relation": "eq"}):
                yield {"took": 3, "timed_out": False, "hits": {"total": total, "hits": []}, "aggregations": aggs}, path, after


def check_composite(doc, path, after, order, style, ascii_, res):
    from esrally.driver import runner

    text = dumps(reorder(doc, order), style, ascii_)
    raw = text.encode("utf-8")
    v = None
    try:
        parsed = runner.CompositeAggExtractor()(io.BytesIO(raw), False, list(path), None)
        got_after = parsed.get("after_key")
        if isinstance(got_after, dict):
            # the streaming parser hands fractional numbers over as decimal.Decimal; that is the same number (and the client serialises it
            # as such) whenever the decimal is exactly what the double prints as -- a lossy conversion stays visible
            import decimal

            got_after = {k: (float(x) if isinstance(x, decimal.Decimal) and decimal.Decimal(repr(float(x))) == x else x) for k, x in got_after.items()}
            parsed = dict(parsed, after_key=got_after)
        if parsed.get("after_key") != after or (isinstance(after, dict) and any(type(parsed["after_key"][k]) is not type(after[k]) for k in after)):
            v = ("composite:after-key", f"extractor returned {parsed.get('after_key')!r}, response has {after!r}")
        elif parsed.get("took") != 3 or parsed.get("timed_out") is not False or parsed.get("hits.total.value") != 5:
            v = ("composite:properties", f"{parsed}")
    except Exception as e:  # noqa
        v = ("composite:raises-" + type(e).__name__, f"{type(e).__name__}: {e}")
    res.case(nontrivial_key=text, outcome_key=("composite", after is None, v[0] if v else "ok"))
    if v:
        res.violation(
            f"{v[0]}:{'pretty-whitespace' if style == 'pretty' else 'plain'}",
            f"{v[1]}; response {text[:300]}",
            {"kind": "composite", "doc": doc, "path": path, "after": after, "order": order, "style": style, "ascii": ascii_},
        )


# ------------------------------------------------------------------------------------------------ Query runner on scripted pages


class ScriptedEs:
    def __init__(self, pages):
        self.pages = list(pages)
        self.requests = []
        self.cleared = []

    def return_raw_response(self):
        pass

    def options(self, **kw):
        return self

    async def perform_request(self, method, path, params=None, body=None, headers=None):
        self.requests.append((method, path, json.loads(json.dumps(body)) if body is not None else None))
        i = len(self.requests) - 1
        if i >= len(self.pages) + 3:
            raise RuntimeError("runner keeps requesting pages beyond the end of the result set")
        page = self.pages[min(i, len(self.pages) - 1)]
        return io.BytesIO(json.dumps(page, separators=(",", ":")).encode("utf-8"))

    async def clear_scroll(self, body=None, **kw):
        self.cleared.append(body)


def page_doc(total_form, total, hits_sorts, timed_out, took, scroll=False):
    tv = total if total_form == "int" else {"value": total, "relation": "eq"}
    d = {"took": took, "timed_out": timed_out, "hits": {"total": tv, "hits": [hit(i, s, None) for i, s in enumerate(hits_sorts)]}}
    if scroll:
        d = dict({"_scroll_id": "scr1"}, **d)
    return d


def check_query_runner(total, size, total_form, timed_pattern, mode, res):
    from esrally.driver import runner

    npages_needed = max(1, -(-total // size))
    pages = []
    remaining = total
    k = 0
    while True:
        n = min(size, remaining)
        sorts = [[k * 100 + j, f"id{j}"] for j in range(n)]
        pages.append(page_doc(total_form, total, sorts, timed_pattern == k, 2 + k, scroll=(mode == "scroll")))
        remaining -= n
        k += 1
        if remaining <= 0:
            if mode == "scroll" and total >= size:
                # a scroll ends with an empty page (unless the first page already showed that there are fewer hits than a page)
                pages.append(page_doc(total_form, total, [], False, 1, scroll=True))
            break
    es = ScriptedEs(pages)
    q = runner.Query()
    params = {
        "operation-type": "paginated-search" if mode == "search_after" else "scroll-search",
        "index": "idx",
        "body": {"query": {"match_all": {}}, "sort": [{"n": "asc"}]},
        "pages": "all",
        "results-per-page": size,
    }
    CLOCK.start()
    v = None
    try:
        try:
            result, _ = vloop.run(q(es, params), horizon=1000.0)
        finally:
            CLOCK.stop()
        if mode == "search_after":
            want_pages = npages_needed
            if result.get("pages") != want_pages or result.get("weight") != want_pages:
                v = ("query:pages", f"{result.get('pages')} pages reported, {want_pages} needed for {total} hits of size {size}")
            elif len(es.requests) != want_pages:
                v = ("query:requests", f"{len(es.requests)} requests for {want_pages} pages")
            else:
                for i, (m, p, body) in enumerate(es.requests):
                    want_after = None if i == 0 else pages[i - 1]["hits"]["hits"][-1]["sort"]
                    if body.get("search_after") != want_after:
                        v = ("query:search-after-cursor", f"request {i} sent search_after={body.get('search_after')!r}, previous page ended at {want_after!r}")
                        break
            want_took = sum(p["took"] for p in pages[:want_pages])
            want_timed = any(p["timed_out"] for p in pages[:want_pages])
        else:
            want_pages = len(pages)
            if result.get("pages") != want_pages:
                v = ("query:pages", f"scroll: {result.get('pages')} pages reported, script has {want_pages}")
            elif es.cleared != [{"scroll_id": ["scr1"]}]:
                v = ("query:scroll-not-cleared", f"{es.cleared}")
            want_took = sum(p["took"] for p in pages)
            want_timed = any(p["timed_out"] for p in pages)
        if v is None:
            if result.get("hits") != total:
                v = ("query:hits", f"hits={result.get('hits')} expected {total}")
            elif result.get("took") != want_took:
                v = ("query:took", f"took={result.get('took')} expected {want_took}")
            elif bool(result.get("timed_out")) != want_timed:
                v = ("query:timed-out", f"timed_out={result.get('timed_out')} expected {want_timed}")
            elif result.get("hits_relation") != "eq" or result.get("unit") != "pages":
                v = ("query:relation-unit", f"{result}")
            elif "search_after" in params["body"] or "pit" in params["body"]:
                v = ("query:body-mutated", f"{params['body']}")
    except Exception as e:  # noqa
        v = ("query:raises-" + type(e).__name__, f"{type(e).__name__}: {e}")
    res.case(
        case_repr={"query_runner": mode, "total_hits": total, "page_size": size, "pages": len(pages)} if res.sample_now(211) else None,
        nontrivial_key=("query", mode, total, size, total_form, timed_pattern),
        outcome_key=("query", mode, len(pages), v[0] if v else "ok"),
    )
    if v:
        res.violation(f"{v[0]}:{mode}", f"total={total} size={size} total_form={total_form} timed_out_on_page={timed_pattern}: {v[1]}",
                      {"kind": "query", "total": total, "size": size, "total_form": total_form, "timed": timed_pattern, "mode": mode})


def check_composite_runner(pages_a, pages_b, delays, res):
    """two composite-aggregation operations with different aggregation paths run concurrently through ONE shared Query runner instance (as the
    clients of a worker do): every page request of each carries the after_key of that operation's previous page, and each ends after its last page"""
    import asyncio

    from esrally.driver import runner

    def script(name_path, npages, tag):
        pages = []
        for k in range(npages):
            agg = {"buckets": [{"key": {"k": f"{tag}{k}"}, "doc_count": 1}]}
            if k < npages - 1:
                agg = {"after_key": {"k": f"{tag}{k}", "n": k}, "buckets": agg["buckets"]}
            node = agg
            for p_ in reversed(name_path):
                node = {p_: node} if p_ is name_path[0] else {"doc_count": 1, p_: node}
            pages.append({"took": 1 + k, "timed_out": False, "hits": {"total": {"value": 9, "relation": "eq"}, "hits": []}, "aggregations": node})
        return pages

    def body(name_path):
        node = {"composite": {"sources": [{"k": {"terms": {"field": "k"}}}]}}
        for p_ in reversed(name_path):
            node = {"aggs": {p_: node}} if p_ is name_path[0] else {"filter": {"match_all": {}}, "aggs": {p_: node}}
        return dict({"size": 0}, **node)

    class SlowEs(ScriptedEs):
        def __init__(self, pages, delay):
            super().__init__(pages)
            self.delay = delay

        async def perform_request(self, method, path, params=None, body=None, headers=None):
            await asyncio.sleep(self.delay)
            return await super().perform_request(method, path, params=params, body=body, headers=headers)

    specs = [(["by_host"], pages_a, "a", delays[0]), (["outer", "by_ip"], pages_b, "b", delays[1])]
    q = runner.Query()
    ess = [SlowEs(script(pth, n, tag), d) for pth, n, tag, d in specs]

    async def both():
        return await asyncio.gather(*[
            q(es, {"operation-type": "composite-agg", "index": "idx", "body": body(pth), "pages": "all", "results-per-page": 1})
            for es, (pth, n, tag, d) in zip(ess, specs)], return_exceptions=True)

    CLOCK.start()
    v = None
    try:
        try:
            results, _ = vloop.run(both(), horizon=1000.0)
        finally:
            CLOCK.stop()
        for es, (pth, n, tag, d), r in zip(ess, specs, results):
            if isinstance(r, BaseException):
                v = ("composite-runner:raises-" + type(r).__name__, f"operation on {pth}: {type(r).__name__}: {r}")
            elif r.get("pages") != n or len(es.requests) != n:
                v = ("composite-runner:pages", f"operation on {pth}: {r.get('pages')} pages reported, {len(es.requests)} requests, the result set has {n} pages")
            else:
                for i, (_m, _p, b_) in enumerate(es.requests):
                    node = b_
                    for p_ in pth:
                        node = node["aggs"][p_]
                    want_after = None if i == 0 else es.pages[i - 1]["aggregations"]
                    if want_after is not None:
                        for p_ in pth:
                            want_after = want_after[p_]
                        want_after = want_after["after_key"]
                    if node["composite"].get("after") != want_after:
                        v = ("composite-runner:cursor", f"operation on {pth}: request {i} sent after={node['composite'].get('after')!r}, the previous page carried {want_after!r}")
                        break
            if v:
                break
    except Exception as e:  # noqa
        v = ("composite-runner:raises-" + type(e).__name__, f"{type(e).__name__}: {e}")
    res.case(
        case_repr={"composite_runner": "two operations on one Query instance", "pages": [pages_a, pages_b], "request_delays": list(delays)} if res.sample_now(5) else None,
        nontrivial_key=("composite-runner", pages_a, pages_b, delays),
        outcome_key=("composite-runner", pages_a, pages_b, v[0] if v else "ok"),
    )
    if v:
        res.violation(f"{v[0]}:concurrent-operations", f"pages {pages_a}/{pages_b}, request delays {delays}: {v[1]}", {"kind": "composite-runner", "pages": [pages_a, pages_b], "delays": list(delays)})


# ------------------------------------------------------------------------------------------------ driver


def _shard(arg):
    import logging

    logging.disable(logging.CRITICAL)
    kind, items = arg
    res = Result()
    if kind == "bulk":
        top = orders(["took", "errors", "items"])
        for items_ in items:
            for flag_mode in ("es", "rally"):
                failed = sum(1 for it in items_ if item_failed(it))
                hard = sum(1 for it in items_ if next(iter(it.values()))["status"] > 299)
                if flag_mode == "rally" and (hard > 0) == (failed > 0):
                    continue
                for oi, order in enumerate(top):
                    for si, (style, ascii_) in enumerate(STYLES):
                        check_bulk(items_, flag_mode, order + ["ingest_took"] if oi % 2 else ["ingest_took"] + order, style, ascii_, (oi + si) % 2 == 0, res)
    elif kind == "search":
        for doc, feats in items:
            for order in orders([k for k in doc]):
                for style, ascii_ in STYLES:
                    check_search(doc, feats, order, style, ascii_, res)
    elif kind == "composite":
        for doc, path, after in items:
            for order in orders(list(doc)):
                for style, ascii_ in STYLES:
                    check_composite(doc, path, after, order, style, ascii_, res)
    elif kind == "composite-runner":
        for a in items:
            check_composite_runner(*a, res)
    else:
        for a in items:
            check_query_runner(*a, res)
    return res


def run(tier, seed):
    bulk = list(bulk_docs(tier))
    search = list(search_docs(tier))
    comp = list(composite_docs())
    q = []
    for mode in ("search_after", "scroll"):
        for total in (0, 1, 2, 3, 4, 5, 6, 7):
            for size in (1, 2, 3):
                for tf in ("int", "object"):
                    for timed in (None, 0, 1):
                        q.append((total, size, tf, timed, mode))
    jobs = [("bulk", ch) for ch in par.chunks(bulk, par.NPROC * 2)] + [("search", ch) for ch in par.chunks(search, par.NPROC * 2)]
    jobs += [("composite", comp), ("query", q)]
    # request delays decide how the two operations interleave at their awaits (equal, one faster, the other faster)
    cr = [(pa, pb, d) for pa in (1, 2, 3, 4) for pb in (1, 2, 3, 4) for d in ((0.25, 0.25), (0.125, 0.5), (0.5, 0.125), (0.25, 0.375))]
    jobs += [("composite-runner", cr)]
    res = par.pmap(_shard, jobs, seed=seed)
    res.extra["bulk_item_lists"] = len(bulk)
    res.extra["search_documents"] = len(search)
    res.extra["string_alphabet"] = S
    res.states = res.evaluations
    res.transitions = res.evaluations
    return res


def replay(data):
    import logging

    logging.disable(logging.CRITICAL)
    res = Result()
    k = data["kind"]
    if k == "bulk":
        check_bulk(data["items"], data["flag_mode"], data["order"], data["style"], data["ascii"], data["ingest"], res)
    elif k == "search":
        check_search(data["doc"], [f for f in data["feats"] if f != "pretty-whitespace"], data["order"], data["style"], data["ascii"], res)
    elif k == "composite-runner":
        check_composite_runner(data["pages"][0], data["pages"][1], tuple(data["delays"]), res)
    elif k == "composite":
        check_composite(data["doc"], data["path"], data["after"], data["order"], data["style"], data["ascii"], res)
    else:
        check_query_runner(data["total"], data["size"], data["total_form"], data["timed"], data["mode"], res)
    return [v for lst in res.violations.values() for v in lst]
