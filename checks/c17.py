"""C17 -- metrics store calls survive transient faults and never repeat after success.

Fault enumeration on the real metrics.EsClient (every public operation) over the real Rally sync Elasticsearch
client whose only node is scripted: every word of HTTP-level outcomes up to a length bound (prefix-pruned), plus
piecewise-constant words around the retry budget (9..12 attempts), compared with a reference model.
"""
import json

from mc import vclock

vclock.install()

from mc import par  # noqa: E402
from mc.core import Result  # noqa: E402
from mc.vclock import CLOCK  # noqa: E402

ID = "C17"
LEVEL = "fault_enumeration"
RULE = (
    "for each of the 13 EsClient operations: every word of node-level outcomes (success, connection timeout/error, HTTP "
    "429/502/503/504/400/401/403/404/500, a connection error that carries its cause (connection aborted by the peer), other transport error, and for bulk operations per-item 429/503/400 failures, also with a number of rejected documents that varies between attempts) up to the "
    "length bound, extended only while the operation keeps retrying, plus all words a^i b^j c with i+j in 9..11 over the retryable "
    "classes (the retry budget boundary), plus two-call histories on one EsClient; run through the real EsClient and Rally's real "
    "sync client over a scripted node with time.sleep on the virtual clock. non-trivial = word contains a fault; distinct = (op, word)"
)
ASSUMPTIONS = [
    "the Elasticsearch client's own transport retries are switched off (max_retries=0) so that one attempt of guarded() is one request; a separate "
    "layer runs every operation on a client with one transport retry against 2k dropped connections (the error then carries the earlier errors and their cause)",
    "reference: statement of C17 (retryable = connection timeout/error, 429/502/503/504 also per bulk item; ten retries; 2^k backoff)",
]

RETRYABLE = {"conn-timeout", "conn-error", "conn-aborted", "429", "502", "503", "504", "items-429", "items-503", "items-3x429"}
BASE = ["ok", "conn-timeout", "conn-error", "conn-aborted", "429", "502", "503", "504", "400", "401", "403", "404", "500", "507", "transport-error"]
BULK_EXTRA = ["items-429", "items-503", "items-3x429", "items-400", "items-429+400", "items-11x429+400"]

# 14 documents per bulk, so that more than ten items of one response can fail
DOCS = [{"_source": {"n": 1}}, {"_source": {"n": 2}}, {"_source": {"n": 3, "s": "é"}}] + [{"_source": {"n": k}} for k in range(4, 15)]

TEMPLATE = json.dumps({"index_patterns": ["rally-*"], "template": {"settings": {"index": {"number_of_shards": 1}}}})

# op -> (callable(ec), method, success-status-set beyond 2xx, returns)
OPS = {
    "get_template": (lambda ec: ec.get_template("t"), "GET", set(), "body"),
    "put_template": (lambda ec: ec.put_template("t", TEMPLATE), "PUT", set(), "body"),
    "template_exists": (lambda ec: ec.template_exists("t"), "HEAD", {"404"}, "bool"),
    "delete_by_query": (lambda ec: ec.delete_by_query("idx", {"query": {"match_all": {}}}), "POST", set(), "body"),
    "delete": (lambda ec: ec.delete("idx", "id1"), "DELETE", {"404"}, "body"),
    "get_index": (lambda ec: ec.get_index("idx"), "GET", set(), "body"),
    "create_index": (lambda ec: ec.create_index("idx"), "PUT", {"400"}, "body"),
    "exists": (lambda ec: ec.exists("idx"), "HEAD", {"404"}, "bool"),
    "refresh": (lambda ec: ec.refresh("idx"), "POST", set(), "body"),
    "bulk_index": (lambda ec: ec.bulk_index("idx", list(DOCS)), "PUT", set(), "none"),
    "index": (lambda ec: ec.index("idx", {"n": 1}), "PUT", set(), "none"),
    "index_with_id": (lambda ec: ec.index("idx", {"n": 1}, id="abc"), "PUT", set(), "none"),
    "search": (lambda ec: ec.search("idx", {"query": {"match_all": {}}}), "POST", set(), "body"),
}
BULK_OPS = {"bulk_index", "index", "index_with_id"}

_STATE = {}


def _client(max_retries=0):
    if ("client", max_retries) in _STATE:
        return _STATE[("client", max_retries)], _STATE["node_cls"]
    if "node_cls" in _STATE:
        from esrally.client.synchronous import RallySyncElasticsearch

        c = RallySyncElasticsearch(hosts=[{"host": "metrics-host", "port": 9243, "scheme": "http"}], node_class=_STATE["node_cls"], max_retries=max_retries,
                                   retry_on_timeout=False, distribution_version="8.6.1", distribution_flavor="default")
        _STATE[("client", max_retries)] = c
        return c, _STATE["node_cls"]
    import elastic_transport
    from elastic_transport import ApiResponseMeta, HttpHeaders
    from elastic_transport._node._base import NodeApiResponse

    from esrally.client.synchronous import RallySyncElasticsearch

    # the client computes a stack level with inspect.stack() (4 ms) for every deprecation warning about `body=`: not under test
    import warnings

    import elasticsearch._sync.client.utils as _u

    _u.warn_stacklevel = lambda: 2
    warnings.simplefilter("ignore")

    class ScriptedNode(elastic_transport.BaseNode):
        script = []
        log = []
        overrun = False

        def perform_request(self, method, target, body=None, headers=None, request_timeout=None):
            hdr = HttpHeaders({"x-elastic-product": "Elasticsearch", "content-type": "application/json"})
            if method == "GET" and target == "/":
                info = {"version": {"number": "8.6.1", "build_flavor": "default"}, "tagline": "You Know, for Search"}
                return NodeApiResponse(ApiResponseMeta(200, "1.1", hdr, 0.0, self.config), json.dumps(info).encode())
            cls = ScriptedNode
            i = len(cls.log)
            cls.log.append((method, target, body))
            if i < len(cls.script):
                kind = cls.script[i]
            else:
                cls.overrun = True
                kind = "ok"
            if kind == "conn-timeout":
                raise elastic_transport.ConnectionTimeout(f"timed out {i}")
            if kind == "conn-error":
                raise elastic_transport.ConnectionError(f"refused {i}")
            if kind == "conn-aborted":
                # the peer dropped the connection (restarting node, cut keep-alive connection): the error carries its cause, as the HTTP node builds it
                import urllib3

                cause = urllib3.exceptions.ProtocolError("Connection aborted.", ConnectionResetError(104, "Connection reset by peer"))
                raise elastic_transport.ConnectionError(f"Connection aborted {i}", errors=(cause,))
            if kind == "transport-error":
                raise elastic_transport.SerializationError(f"cannot-serialize-{i}")
            if kind.startswith("items-") or kind == "ok":
                status = 200
                if target.endswith("/_bulk"):
                    n = len([l for l in (body or b"").split(b"\n") if l]) // 2
                    items = [{"index": {"status": 201, "_id": str(k)}} for k in range(n)]
                    if kind == "items-429":
                        items[0] = {"index": {"status": 429, "error": {"type": "es_rejected_execution_exception"}}}
                    elif kind == "items-3x429":
                        # several documents rejected (the number of rejected documents varies from attempt to attempt)
                        for k in range(min(3, n)):
                            items[k] = {"index": {"status": 429, "error": {"type": "es_rejected_execution_exception"}}}
                    elif kind == "items-503":
                        items[-1] = {"index": {"status": 503, "error": {"type": "unavailable_shards_exception"}}}
                    elif kind == "items-400":
                        items[0] = {"index": {"status": 400, "error": {"type": "mapper_parsing_exception"}}}
                    elif kind == "items-11x429+400":
                        # eleven retryable item errors first, one non-retryable item error behind them
                        for k in range(min(11, n)):
                            items[k] = {"index": {"status": 429, "error": {"type": "es_rejected_execution_exception"}}}
                        items[min(11, n - 1)] = {"index": {"status": 400, "error": {"type": "mapper_parsing_exception"}}}
                    elif kind == "items-429+400":
                        items[0] = {"index": {"status": 429, "error": {"type": "es_rejected_execution_exception"}}}
                        items.append({"index": {"status": 400, "error": {"type": "mapper_parsing_exception"}}})
                        items = items[-n:] if n > 1 else [items[-1]]
                    data = {"took": 1, "errors": kind != "ok", "items": items, "attempt": i}
                else:
                    data = {"acknowledged": True, "attempt": i}
            else:
                status = int(kind)
                data = {"error": {"type": f"boom_{kind}", "reason": f"reason-{i}"}, "status": status, "attempt": i}
            raw = b"" if method == "HEAD" else json.dumps(data).encode()
            return NodeApiResponse(ApiResponseMeta(status, "1.1", hdr, 0.0, self.config), raw)

        def close(self):
            pass

    c = RallySyncElasticsearch(
        hosts=[{"host": "metrics-host", "port": 9243, "scheme": "http"}],
        node_class=ScriptedNode,
        max_retries=0,
        retry_on_timeout=False,
        distribution_version="8.6.1",
        distribution_flavor="default",
    )
    _STATE[("client", 0)] = c
    _STATE["node_cls"] = ScriptedNode
    return c, ScriptedNode


def alphabet(op):
    return BASE + (BULK_EXTRA if op in BULK_OPS else [])


def classify(op, kind):
    """'success' | 'retry' | 'setup-error' | 'rally-error'"""
    if kind == "ok" or kind in OPS[op][2]:
        return "success"
    if kind in RETRYABLE:
        return "retry"
    if kind in ("401", "403"):
        return "setup-error"
    return "rally-error"


CAUSE_TOKEN = {
    "401": "authenticate",
    "403": "privileges",
    "400": "boom_400",
    "404": "boom_404",
    "500": "boom_500",
    "507": "boom_507",  # a 5xx status above 504 is not one of the transient ones
    "transport-error": "cannot-serialize",
    "items-400": "mapper_parsing_exception",
    "items-429+400": "mapper_parsing_exception",
    "items-11x429+400": "mapper_parsing_exception",
}
EXHAUST_TOKEN = {
    "conn-timeout": "timeout",
    "conn-error": "connect",
    "conn-aborted": "connect",
    "429": "boom_429",
    "502": "boom_502",
    "503": "boom_503",
    "504": "boom_504",
    "items-429": "es_rejected_execution_exception",
    "items-3x429": "es_rejected_execution_exception",
    "items-503": "unavailable_shards_exception",
}


def run_one(op, word, before=()):
    import random

    from esrally import exceptions, metrics

    c, node = _client()
    ec = metrics.EsClient(c)
    for op0, w0 in before:
        node.script, node.log, node.overrun = list(w0), [], False
        CLOCK.start()
        try:
            OPS[op0][0](ec)
        except BaseException:  # noqa -- the earlier call only sets the stage here; how it ends is judged where it is the call under test
            pass
        finally:
            CLOCK.stop()
    node.script, node.log, node.overrun = list(word), [], False
    random.seed(len(word) * 7919 + len(op))
    CLOCK.start()
    try:
        try:
            final = ("ret", OPS[op][0](ec))
        except exceptions.SystemSetupError as e:
            final = ("setup-error", str(e.message))
        except exceptions.RallyError as e:
            final = ("rally-error", str(e.message))
        except BaseException as e:  # noqa
            final = ("other-exception", f"{type(e).__name__}: {e}")
        sleeps = list(CLOCK.sleeps)
    finally:
        CLOCK.stop()
    return list(node.log), node.overrun, final, sleeps


def check_one(op, word, res, before=()):
    log, overrun, final, sleeps = run_one(op, word, before)
    if overrun:
        return True
    # reference
    want_attempts = 0
    want = None
    for i, k in enumerate(word):
        want_attempts = i + 1
        cl = classify(op, k)
        if cl == "retry":
            if i + 1 == 11:
                want = ("rally-error", EXHAUST_TOKEN[k], "exhausted")
                break
            continue
        if cl == "success":
            want = ("ret", i, "success")
        else:
            want = (cl, CAUSE_TOKEN[k], "fatal")
        break
    problem = None
    n = len(log)
    if want is None:
        # every scripted outcome is retryable and the budget is not used up: the call has to ask for a further attempt (overrun); it ended instead
        problem = (f"gave-up-instead-of-retrying-after-{classify(op, word[-1]) if word else 'nothing'}", f"{n} requests for {len(word)} retryable outcomes, final={final}")
    elif n != want_attempts:
        if n > want_attempts:
            last = word[want_attempts - 1]
            problem = (f"repeated-after-{classify(op, last)}", f"{n} requests, expected {want_attempts}")
        else:
            problem = (f"gave-up-early-after-{classify(op, word[n - 1]) if n else 'nothing'}", f"{n} requests, expected {want_attempts}")
    elif len(sleeps) != want_attempts - 1:
        problem = ("sleep-count", f"sleeps={sleeps} for {want_attempts} attempts")
    else:
        for k, s in enumerate(sleeps):
            if not (2**k <= s < 2**k + 1):
                problem = ("backoff", f"pause {k} was {s}, expected within [{2 ** k}, {2 ** k + 1})")
                break
    if problem is None and want is not None:
        if want[0] == "ret":
            if final[0] != "ret":
                problem = ("success-not-returned", f"final={final}")
            else:
                val = final[1]
                kind = OPS[op][3]
                i = want[1]
                if kind == "none":
                    ok = val is None
                elif kind == "bool":
                    ok = (val is not None) and bool(val) == (word[i] == "ok") and not isinstance(val, dict)
                else:
                    ok = hasattr(val, "get") and val.get("attempt") == i
                if not ok:
                    problem = ("wrong-result", f"returned {val!r} for successful attempt {i}")
        else:
            if final[0] != want[0]:
                problem = (f"wrong-error-kind-{want[2]}", f"expected {want[0]}, final={final}")
            elif OPS[op][1] == "HEAD" and want[2] != "fatal-auth" and word[want_attempts - 1].isdigit():
                pass  # a HEAD response has no body, so there is no error type that the message could name
            elif want[1].lower() not in final[1].lower():
                problem = (f"cause-not-named-{want[2]}", f"message {final[1]!r} does not name {want[1]!r}")
    if problem is None and n:
        first = log[0]
        for j, req in enumerate(log):
            if req != first:
                problem = ("request-changed-on-retry", f"attempt {j} sent {req!r}, attempt 0 sent {first!r}")
                break
        if problem is None and op in BULK_OPS:
            ndocs = len(DOCS) if op == "bulk_index" else 1
            lines = [l for l in (first[2] or b"").split(b"\n") if l]
            if len(lines) != 2 * ndocs:
                problem = ("bulk-payload", f"{len(lines)} lines for {ndocs} documents: {first[2]!r}")
        if problem is None and first[0] != OPS[op][1]:
            problem = ("http-method", f"{first[0]} instead of {OPS[op][1]}")
    res.case(
        case_repr={"op": op, "word": list(word), "requests": n, "final": final[0], "pauses": [round(s, 3) for s in sleeps],
                   "earlier_calls_on_same_client": [[a, list(b)] for a, b in before]}
        if res.sample_now(4001)
        else None,
        nontrivial_key=(op, tuple(word), repr(before)) if any(k != "ok" for k in word) else None,
        outcome_key=(n, final[0], len(sleeps), word[-1] if word else ""),
    )
    if problem:
        last_kind = word[min(n, len(word)) - 1] if word and n else "none"
        grp = "bulk-item" if last_kind.startswith("items") else ("status" if last_kind.isdigit() else last_kind)
        hist = "history:" if before else ""
        res.violation(
            f"guarded:{hist}{problem[0]}:{grp}",
            f"op={op} outcomes={list(word)}: {problem[1]} (requests={n}, final={final}, pauses={[round(s, 3) for s in sleeps]})"
            + (f" after earlier calls {[[a, list(b)] for a, b in before]}" if before else ""),
            {"op": op, "word": list(word), "before": [[a, list(b)] for a, b in before]},
        )
    return False


def check_transport_retries(op, k, tail, res):
    """The client's own transport retries are ON (one retry per call, Rally's metrics client has three): the peer drops 2k consecutive
    connections, so k attempts of guarded() fail with a connection error that carries the earlier errors and their cause, then `tail`."""
    import random

    from esrally import exceptions, metrics

    c, node = _client(0)
    c, node = _client(1)
    ec = metrics.EsClient(c)
    word = ("conn-aborted",) * (2 * k) + ((tail,) if tail else ())
    node.script, node.log, node.overrun = list(word) + ["ok"] * 4, [], False
    random.seed(k)
    CLOCK.start()
    try:
        try:
            final = ("ret", OPS[op][0](ec))
        except exceptions.SystemSetupError as e:
            final = ("setup-error", str(e.message))
        except exceptions.RallyError as e:
            final = ("rally-error", str(e.message))
        except BaseException as e:  # noqa
            final = ("other-exception", f"{type(e).__name__}: {e}")
        sleeps = list(CLOCK.sleeps)
    finally:
        CLOCK.stop()
    n = len(node.log)
    problem = None
    if k >= 11:
        if final[0] != "rally-error" or "connect" not in final[1].lower():
            problem = ("wrong-error-kind-exhausted", f"final={final}")
        elif n != 22:
            problem = ("attempts-exhausted", f"{n} requests, expected 22 (11 attempts of two requests)")
    else:
        want_final = {"success": "ret", "setup-error": "setup-error", "rally-error": "rally-error"}[classify(op, tail)]
        if final[0] != want_final:
            problem = ("gave-up-instead-of-retrying-after-retry" if want_final == "ret" else "wrong-error-kind-fatal", f"final={final}, expected {want_final}")
        elif n != 2 * k + 1:
            problem = ("request-count", f"{n} requests, expected {2 * k + 1}")
    if problem is None:
        want_sleeps = min(k, 10)
        if len(sleeps) != want_sleeps:
            problem = ("sleep-count", f"sleeps={sleeps} for {k} failed attempts")
        else:
            for j, s_ in enumerate(sleeps):
                if not (2**j <= s_ < 2**j + 1):
                    problem = ("backoff", f"pause {j} was {s_}")
                    break
    res.case(
        case_repr={"op": op, "transport_retries": 1, "dropped_connections": 2 * k, "then": tail, "requests": n, "final": final[0], "pauses": [round(x, 3) for x in sleeps]} if res.sample_now(7) else None,
        nontrivial_key=("transport", op, k, tail),
        outcome_key=("transport", n, final[0], len(sleeps)),
    )
    if problem:
        res.violation(f"guarded:transport-retries:{problem[0]}:conn-aborted", f"op={op}, client with one transport retry, {2 * k} dropped connections then {tail}: {problem[1]} (requests={n}, final={final}, pauses={[round(x, 3) for x in sleeps]})",
                      {"transport": [op, k, tail]})


def explore_words(op, maxlen, res, before=()):
    stack = [()]
    alpha = alphabet(op)
    while stack:
        w = stack.pop()
        overrun = check_one(op, w, res, before)
        res.states += 1
        if overrun:
            if len(w) < maxlen:
                for k in reversed(alpha):
                    stack.append(w + (k,))
                    res.transitions += 1
            else:
                res.count("words_cut_at_length_bound")


def long_words(op):
    alpha = alphabet(op)
    retry = [k for k in alpha if classify(op, k) == "retry"]
    seen = set()
    for total in (9, 10, 11):
        for i in range(total + 1):
            j = total - i
            for a in retry:
                for b in retry:
                    if i == 0 or j == 0:
                        if a != b:
                            continue
                    for c in alpha:
                        w = (a,) * i + (b,) * j + (c,)
                        if w not in seen:
                            seen.add(w)
                            yield w


FIRST_CALLS = [
    ("search", ("429", "ok")),
    ("bulk_index", ("items-429", "ok")),
    ("refresh", ("401",)),
    ("exists", ("404",)),
    ("create_index", ("conn-error", "400")),
]


def _shard(arg):
    import logging

    logging.disable(logging.CRITICAL)
    mode, op, p = arg
    res = Result()
    if mode == "transport":
        for k in (1, 2, 3, 10, 11):
            for tail in ("ok", "400", "401"):
                check_transport_retries(op, k, tail, res)
                res.states += 1
    elif mode == "short":
        explore_words(op, p, res)
    elif mode == "history":
        for fc in FIRST_CALLS:
            explore_words(op, p, res, (fc,))
            res.count("two_call_histories")
    else:
        for w in p:
            overrun = check_one(op, w, res)
            res.states += 1
            if overrun:
                # the operation wants a further attempt after the word: legitimate only if the word has < 11 retryable outcomes
                check_one(op, w + ("ok",), res)
                res.states += 1
    return res


def run(tier, seed):
    maxlen = 3 if tier == "quick" else 4
    jobs = [("short", op, maxlen) for op in OPS]
    jobs += [("history", op, 2) for op in OPS]
    jobs += [("transport", op, None) for op in OPS]
    long_ops = ["bulk_index", "search", "exists"] if tier == "quick" else list(OPS)
    for op in long_ops:
        lw = list(long_words(op))
        for ch in par.chunks(lw, 8):
            jobs.append(("long", op, ch))
    res = par.pmap(_shard, jobs, seed=seed)
    res.extra["operations"] = sorted(OPS)
    res.extra["max_exhaustive_word_length"] = maxlen
    res.extra["long_word_operations"] = long_ops
    res.traces = res.evaluations
    return res


def replay(data):
    import logging

    logging.disable(logging.CRITICAL)
    res = Result()
    if "transport" in data:
        check_transport_retries(*data["transport"], res)
        return [v for lst in res.violations.values() for v in lst]
    check_one(data["op"], tuple(data["word"]), res, tuple((a, tuple(b)) for a, b in data.get("before", [])))
    return [v for lst in res.violations.values() for v in lst]
