"""C16 -- retryable operations retry exactly as configured.

Fault enumeration on the real runner.Retry over a scripted delegate on the virtual loop: every word of attempt
outcomes up to a length bound (prefix-pruned: a word is only extended if the run consumed it completely) x every
combination of the retry parameters, compared with a reference written from docs/track.rst and the statement.
"""
import asyncio
import itertools
import re
import socket

from mc import vclock

vclock.install()

from mc import par, vloop  # noqa: E402
from mc.core import Result  # noqa: E402
from mc.vclock import CLOCK  # noqa: E402

ID = "C16"
LEVEL = "fault_enumeration"
RULE = (
    "every word over the 10 attempt outcomes up to the length bound (a word is extended only while the operation is still "
    "asking for another attempt) x every combination of retries / retry-until-success / retry-on-timeout / retry-on-error / "
    "retry-wait-period (present and absent), run through the real Retry on a virtual clock, both on a fresh Retry instance and "
    "after each of 5 earlier calls with other parameters through the same instance (two-call histories); non-trivial = at least one "
    "failing attempt in the word; distinct = distinct (parameters, word)"
)
ASSUMPTIONS = [
    "the delegate is a scripted coroutine taking 0.25 s of virtual time per attempt; Retry is the real class",
    "reference model: docs/track.rst 'retryable operations' + the property statement (generic transport errors are not timeouts)",
]

OUTCOMES = ["ok", "fail", "nondict", "noflag", "none", "conn-timeout", "conn-error", "sock-timeout", "api-408", "api-500", "transport-error", "tls-error"]
SERVICE = 0.25


def make_outcome(kind, i):
    import elastic_transport
    import elasticsearch

    if kind == "ok":
        return ("ret", {"success": True, "weight": 1, "unit": "ops", "attempt": i})
    if kind == "fail":
        return ("ret", {"success": False, "weight": 1, "unit": "ops", "attempt": i})
    if kind == "nondict":
        return ("ret", (i + 1, "docs"))
    if kind == "noflag":  # a dict result that says nothing about success counts as a success
        return ("ret", {"weight": 1, "unit": "ops", "attempt": i})
    if kind == "none":
        return ("ret", None)
    if kind == "conn-timeout":
        return ("exc", elasticsearch.exceptions.ConnectionTimeout(f"timeout {i}"))
    if kind == "conn-error":
        return ("exc", elasticsearch.exceptions.ConnectionError(f"conn {i}"))
    if kind == "sock-timeout":
        return ("exc", socket.timeout(f"sock {i}"))
    if kind in ("api-408", "api-500"):
        status = int(kind[4:])
        meta = elastic_transport.ApiResponseMeta(
            status=status, http_version="1.1", headers=elastic_transport.HttpHeaders(), duration=0.0, node=None
        )
        return ("exc", elasticsearch.ApiError(f"api {status} {i}", meta, {"error": "x"}))
    if kind == "transport-error":
        return ("exc", elastic_transport.SerializationError(f"serialization {i}"))
    if kind == "tls-error":  # a subclass of ConnectionError
        return ("exc", elastic_transport.TlsError(f"tls {i}"))
    raise ValueError(kind)


class Scripted:
    def __init__(self, word):
        self.entered = 0
        self.exited = 0
        self.load(word)

    def load(self, word):
        self.word = word
        self.outcomes = [make_outcome(k, i) for i, k in enumerate(word)]
        self.starts = []
        self.ends = []
        self.overrun = False

    async def __aenter__(self):
        self.entered += 1
        return self

    async def __aexit__(self, *a):
        self.exited += 1
        return False

    async def __call__(self, es, params):
        i = len(self.starts)
        self.starts.append(CLOCK.now)
        await asyncio.sleep(SERVICE)
        self.ends.append(CLOCK.now)
        if i >= len(self.outcomes):
            self.overrun = True
            self.outcomes.append(make_outcome("ok", i))
        kind, val = self.outcomes[i]
        if kind == "ret":
            return val
        raise val

    def __repr__(self):
        return "scripted"


def param_sets(tier):
    out = []
    for retries in (None, 0, 1, 2, 3):
        for until in (None, True, False):
            for rot in (None, True, False):
                for roe in (None, True, False):
                    for wait in (None, 2.0):
                        for ctor_until in (False, True):
                            if ctor_until and (retries not in (None, 2) or wait is not None):
                                continue  # constructor default is a second spelling: fewer combinations
                            out.append((retries, until, rot, roe, wait, ctor_until))
    return out


def to_params(ps):
    retries, until, rot, roe, wait, _ctor = ps
    p = {}
    if retries is not None:
        p["retries"] = retries
    if until is not None:
        p["retry-until-success"] = until
    if rot is not None:
        p["retry-on-timeout"] = rot
    if roe is not None:
        p["retry-on-error"] = roe
    if wait is not None:
        p["retry-wait-period"] = wait
    return p


def reference(ps, word):
    """walks the word; returns list of decisions per attempt: 'retry' | 'return' | 'raise' and the wait"""
    retries, until, rot, roe, wait, ctor_until = ps
    until_eff = ctor_until if until is None else until
    attempts = None if until_eff else (retries or 0) + 1
    roe_eff = True if until_eff else bool(roe)
    rot_eff = True if rot is None else rot
    wait_eff = 0.5 if wait is None else wait
    decisions = []
    for i, k in enumerate(word):
        last = attempts is not None and i + 1 == attempts
        if k in ("ok", "nondict", "noflag", "none"):
            decisions.append("return")
            break
        if k == "fail":
            if last or not roe_eff:
                decisions.append("return")
                break
            decisions.append("retry")
            continue
        retryable = k in ("conn-timeout", "conn-error", "sock-timeout", "api-408", "tls-error")
        if retryable and rot_eff and not last:
            decisions.append("retry")
            continue
        decisions.append("raise")
        break
    return decisions, wait_eff


def run_one(ps, word, before_calls=()):
    """before_calls: earlier (ps, word) calls made through the SAME Retry instance (registered runners are shared by all
    tasks of an operation type); their words always terminate.  Only the last call is observed."""
    from esrally.driver import runner

    d = Scripted(())
    r = runner.Retry(d, retry_until_success=True) if ps[5] else runner.Retry(d)
    for ps0, w0 in before_calls:
        d.load(tuple(w0))
        p0 = to_params(tuple(ps0))
        CLOCK.start()
        try:

            async def first():
                async with r as rr:
                    return await rr(None, p0)

            try:
                vloop.run(first(), horizon=10_000.0)
            except Exception:  # noqa -- outcome of the earlier call is checked by its own single-call case
                pass
        finally:
            CLOCK.stop()
    d.load(word)
    d.entered = d.exited = 0
    params = to_params(ps)
    before = dict(params)
    CLOCK.start()
    try:

        async def main():
            async with r as rr:
                return await rr(None, params)

        try:
            val, loop = vloop.run(main(), horizon=10_000.0)
            final = ("ret", val)
        except vloop.HorizonReached:
            final = ("horizon", None)
        except BaseException as e:  # noqa
            final = ("exc", e)
    finally:
        CLOCK.stop()
    return d, final, params == before


def check_one(ps, word, res, before_calls=()):
    d, final, params_untouched = run_one(ps, word, before_calls)
    if d.overrun:
        return d, None  # the word was too short: the caller extends it
    decisions, wait = reference(ps, word)
    n = len(d.starts)
    viol = None
    # compare attempt by attempt
    for i in range(max(n, len(decisions))):
        ref = decisions[i] if i < len(decisions) else "none"
        if i < n - 1:
            gap = d.starts[i + 1] - d.ends[i]
            got = "retry-wait" if abs(gap - wait) < 1e-9 else ("retry-nowait" if abs(gap) < 1e-9 else "retry-wrongwait")
        elif i == n - 1:
            kind, val = final
            want_kind, want_val = d.outcomes[i]
            if kind == "horizon":
                got = "never-ends"
            elif kind == want_kind and val is want_val:
                got = "return" if kind == "ret" else "raise"
            elif kind == "ret":
                got = "return-other"
            else:
                got = "raise-other"
        else:
            got = "no-attempt"
        want = {"retry": "retry-wait"}.get(ref, ref)
        if got != want:
            viol = (i, want, got)
            break
    if viol is None and (d.entered != 1 or d.exited != 1):
        viol = (n - 1, "enter-exit-once", f"enter={d.entered},exit={d.exited}")
    if viol is None and not params_untouched:
        viol = (n - 1, "params-unmodified", "params-modified")
    fk = final[0] if final[0] != "exc" else type(final[1]).__name__
    res.case(
        case_repr={"params": to_params(ps), "ctor_until_success": ps[5], "word": list(word), "calls": n, "final": fk,
                   "earlier_calls_on_same_instance": [[to_params(tuple(a)), list(b)] for a, b in before_calls]}
        if res.sample_now(5003)
        else None,
        nontrivial_key=(ps, tuple(word), repr(before_calls)) if any(k != "ok" for k in word) else None,
        outcome_key=(n, fk, tuple(round(b - a, 6) for a, b in zip(d.ends, d.starts[1:]))),
    )
    if viol:
        i, want, got = viol
        k = word[i] if i < len(word) else "beyond-word"
        hist = "history:" if before_calls else ""
        res.violation(
            f"retry:{hist}after-{k}:expected-{want}:got-{got}",
            f"params={to_params(ps)} ctor_until_success={ps[5]} word={list(word)} attempt {i} ({k}): expected {want}, observed {got}; "
            f"call starts={d.starts} final={final[0]}:{final[1]!r}"
            + (f"; earlier calls on the same Retry instance: {[[to_params(tuple(a)), list(b)] for a, b in before_calls]}" if before_calls else ""),
            {"ps": list(ps), "word": list(word), "before": [[list(a), list(b)] for a, b in before_calls]},
        )
    return d, viol


def explore_words(ps, maxlen, res, before_calls=()):
    """DFS over words with the prefix pruning described in RULE"""
    stack = [()]
    while stack:
        w = stack.pop()
        d, _ = check_one(ps, w, res, before_calls)
        res.states += 1
        if d.overrun:
            if len(w) < maxlen:
                for k in reversed(OUTCOMES):
                    stack.append(w + (k,))
                    res.transitions += 1
            else:
                res.count("words_cut_at_length_bound")


# earlier calls through the same (shared, registered) Retry instance: each sets every parameter to a non-default value
FIRST_CALLS = [
    ((None, True, None, None, None), ("fail", "ok")),
    ((3, None, False, True, 2.0), ("fail", "ok")),
    ((2, False, True, False, 2.0), ("conn-error", "ok")),
    ((1, None, None, True, None), ("fail", "fail")),
    ((0, None, False, None, None), ("conn-timeout",)),
]


def _shard(arg):
    pss, maxlen, with_history = arg
    import logging

    logging.disable(logging.CRITICAL)
    res = Result()
    for ps in pss:
        if with_history:
            for fps, fw in FIRST_CALLS:
                explore_words(ps, maxlen, res, ((fps + (ps[5],), fw),))
                res.count("two_call_histories")
        else:
            explore_words(ps, maxlen, res)
    return res


def check_registry(res):
    """operations the docs mark as retryable are wrapped by Retry in register_default_runners (and only runners)"""
    import os

    from esrally.driver import runner
    from esrally.track import track
    from mc.core import repo_root

    runner.register_default_runners()
    text = open(os.path.join(repo_root(), "docs", "track.rst"), encoding="utf-8").read()
    # sections: a line followed by ~~~~ underline inside the Operations chapter
    heads = [(m.start(), m.group(1)) for m in re.finditer(r"^([a-z][a-z0-9-]+)\n~{3,}\n", text, re.M)]
    known = {}
    for ot in track.OperationType:
        known[ot.to_hyphenated_string()] = ot
    n = 0
    for idx, (pos, name) in enumerate(heads):
        if name not in known:
            continue
        end = heads[idx + 1][0] if idx + 1 < len(heads) else len(text)
        section = text[pos:end]
        documented = "is :ref:`retryable" in section
        if not documented:
            continue
        n += 1
        r = runner.runner_for(name)
        cur, wrapped = r, False
        for _ in range(10):
            if isinstance(cur, runner.Retry):
                wrapped = True
                break
            if hasattr(cur, "delegate"):
                cur = cur.delegate
            else:
                break
        res.case(nontrivial_key=("registry", name), outcome_key=("registry", wrapped))
        # "It will wait by default until ..." = the registered wrapper retries until success unless the task says otherwise
        waits_by_default = "It will wait by default" in section
        if wrapped and bool(getattr(cur, "retry_until_success", False)) != waits_by_default:
            res.violation(
                f"registry:documented-default-retry-until-success:{name}",
                f"docs/track.rst: operation {name} {'waits' if waits_by_default else 'does not wait'} until success by default, the registered "
                f"Retry wrapper has retry_until_success={getattr(cur, 'retry_until_success', None)}",
                {"registry": name},
            )
        if not wrapped:
            res.violation(
                f"registry:documented-retryable-not-wrapped:{name}",
                f"docs/track.rst marks operation {name} as retryable but its default runner is not wrapped by Retry",
                {"registry": name},
            )
    res.extra["documented_retryable_operations_checked"] = n


def run(tier, seed):
    maxlen = 3 if tier == "quick" else 5
    pss = param_sets(tier)
    if tier == "thorough":
        # length 5 on the full parameter product is ~20M runs; keep the full product to length 4 and the semantic core to 5
        core = [ps for ps in pss if ps[4] is None and not ps[5] and ps[1] is not False]
        rest = [ps for ps in pss if ps not in core]
        jobs = [([ps], 5, False) for ps in core] + [([ps], 4, False) for ps in rest] + [([ps], 3, True) for ps in pss]
    else:
        jobs = [([ps], maxlen, False) for ps in pss] + [([ps], 2, True) for ps in pss]
    res = par.pmap(_shard, jobs, seed=seed, chunksize=2)
    res.extra["parameter_sets"] = len(pss)
    res.extra["max_word_length"] = maxlen
    res.extra["outcome_alphabet"] = OUTCOMES
    check_registry(res)
    res.traces = res.evaluations
    return res


def replay(data):
    import logging

    logging.disable(logging.CRITICAL)
    res = Result()
    if "registry" in data:
        check_registry(res)
        return [v for lst in res.violations.values() for v in lst if v.replay.get("registry") == data["registry"]]
    before = tuple((tuple(a), tuple(b)) for a, b in data.get("before", []))
    check_one(tuple(data["ps"]), tuple(data["word"]), res, before)
    return [v for lst in res.violations.values() for v in lst]
