"""C04 -- latency, service time and processing time mean what the docs say.

The real worker stack (AsyncIoAdapter.run, schedule, AsyncExecutor, execute_single, runner registry, Rally async client) runs
on the virtual loop against the simulated node for every combination of a bounded alphabet; every sample is compared with the
request log of the node and with the tuples the real schedule yielded.
"""
import itertools

from mc import explore, loadgen, par
from mc.core import Result
from mc.vclock import EPOCH

ID = "C04"
LEVEL = "exploration"
RULE = (
    "clients {1,2,3} x target throughput {none, 1, 2, 10 ops/s, '20 docs/s', target-interval 0.5} x service-time words (all words of "
    "length <= 2 (thorough 3) over {0.0625, 0.5, 1.0, 3.0, 0.5 - 2^-11}, continued periodically, rotated per client) x weight/unit {(1,ops),(5,docs)} "
    "x error pattern {none, API error on 2nd, API error on 1st, unsuccessful result on 2nd, connection timeout on 2nd} x client-side "
    "overhead {0, (1/64, 1/32)} x wire requests per invocation {1,2}; 4 invocations per client, on-error=continue; for two-client "
    "configurations every order of simultaneously due callbacks up to 1 deviation; completed-by family: an unthrottled completing task "
    "(1..3 requests x 3 service times; completed-by task / any) next to a throttled sibling (1..2 clients x interval {0.5, 2} x service "
    "{1/16, 1}) on the same worker, callback orders up to 1 deviation. non-trivial = throttled or erroneous or multi-client; "
    "distinct = configuration (+ schedule)"
)
ASSUMPTIONS = [
    "scheduled time of an invocation = the tuple yielded by the real schedule generator (observed by wrapping ScheduleHandle.__call__), which "
    "must itself equal k * clients * weight / target (weight counted only if the target is in the runner's unit)",
    "service time of an invocation = first wire request sent .. last response received at the simulated node; binary-fraction times, tolerance 1e-9",
]

# 0.49951171875 = 1/2 - 2^-11: a response that arrives less than a millisecond before the next request of a 2 ops/s client is due
SVC = [0.0625, 0.5, 1.0, 3.0, 0.49951171875]
# ("custom", x): a user-defined (non-simple) scheduler that paces by its own task parameter, without target-throughput / target-interval
THROUGHPUTS = [None, 1, 2, 10, "20 docs/s", ("interval", 0.5), ("custom", 0.5)]


def register_custom_scheduler():
    from esrally.driver import scheduler

    class VerifScheduler(scheduler.Scheduler):
        """one request every `verif-interval` seconds per client; takes feedback hooks, so Rally treats it as a non-simple scheduler"""

        def __init__(self, task):
            self.interval = float(task.params["verif-interval"])

        def before_request(self, now):
            pass

        def after_request(self, now, weight, unit, request_meta_data):
            pass

        def next(self, current):
            return current + self.interval

    try:
        scheduler.register_scheduler("verif-sched", VerifScheduler)
    except Exception:  # noqa -- already registered in this process
        pass
ERRORS = ["none", "api-2nd", "api-1st", "unsuccessful-2nd", "timeout-2nd"]
N_ITER = 4
TOL = 1e-9


def configs(tier):
    maxlen = 2 if tier == "quick" else 3
    words = [w for n in range(1, maxlen + 1) for w in itertools.product(SVC, repeat=n)]
    for clients in (1, 2, 3):
        for thr in THROUGHPUTS:
            for word in words:
                if clients == 3 and len(word) > 1 and tier == "quick":
                    continue
                for wu in ((1, "ops"), (5, "docs")):
                    for err in ERRORS:
                        for ovh in ((0, 0), (0.015625, 0.03125), (0, 0.03125, 0.25)):
                            if len(ovh) > 2 and (len(word) > 1 or err not in ("none", "api-2nd") or wu[0] != 1):
                                continue
                            for wire in (1, 2):
                                if tier == "quick" and wire == 2 and (err not in ("none", "api-2nd") or len(word) > 1):
                                    continue
                                yield (clients, thr, word, wu, err, ovh, wire)


def build(cfg):
    clients, thr, word, (weight, unit), err, ovh, wire = cfg
    pre, post = ovh[:2]
    tparams = {}
    task_kw = {}
    if isinstance(thr, tuple) and thr[0] == "custom":
        register_custom_scheduler()
        tparams["verif-interval"] = thr[1]
        task_kw["schedule"] = "verif-sched"
    elif isinstance(thr, tuple):
        tparams["target-interval"] = thr[1]
    elif thr is not None:
        if isinstance(thr, str) and unit != "docs":
            # a docs/s target with an ops-reporting runner is rejected by Rally (units must match unless the target is in ops/s)
            return None
        tparams["target-throughput"] = thr
    op_params = {"weight": weight, "unit": unit, "pre": pre, "post": post, "wire": wire}
    if len(ovh) > 2:
        op_params["partition-cost"] = ovh[2]  # setting a client up (partitioning its parameter source) takes time
    if err == "unsuccessful-2nd":
        op_params["unsuccessful-at"] = [1]
    task = loadgen.make_task("t", "t", clients=clients, op_params=op_params, iterations=N_ITER, params=tparams, **task_kw)
    allocs = [(cid, loadgen.allocation(task, cid)) for cid in range(clients)]

    def behaviour(entry):
        import elastic_transport

        _, _, _key, ci, k, w = entry["target"].split("/")
        ci, k, w = int(ci), int(k), int(w)
        st = word[(k + ci) % len(word)]
        out = {"service_time": st, "body": {"ok": True}}
        if w == 0:
            if (err == "api-2nd" and k == 1) or (err == "api-1st" and k == 0):
                out.update(status=500, body={"error": {"type": "boom", "reason": "x"}, "status": 500})
            elif err == "timeout-2nd" and k == 1:
                out["raise_"] = elastic_transport.ConnectionTimeout("injected timeout")
        return out

    return task, allocs, behaviour


def check(cfg, ch, res):
    built = build(cfg)
    if built is None:
        return
    clients, thr, word, (weight, unit), err, ovh, wire = cfg
    pre, post = ovh[:2]
    t0 = (ovh[2] * clients) if len(ovh) > 2 else 0.0  # every client is set up before the first one starts: that is where the task's clock starts
    task, allocs, behaviour = built
    r = loadgen.run_worker(allocs, behaviour, on_error="continue", chooser=ch)
    v = None
    if r.error is not None or r.loop_errors:
        v = ("raises", f"{type(r.error).__name__ if r.error else ''}: {r.error} {r.loop_errors[:1]}")
    else:
        by_client = {}
        for s in r.samples:
            by_client.setdefault(s.client_id, []).append(s)
        log_by = {}
        for e in r.log:
            _, _, _key, ci, k, w = e["target"].split("/")
            log_by.setdefault((e["client_id"], int(k)), []).append(e)
        handles = {h.task_allocation.client_index_in_task: h for h in r.handles}
        for cid in range(clients):
            ss = by_client.get(cid, [])
            invocations = sorted(k for (c, k) in log_by if c == cid)
            if len(ss) != len(invocations) or len(ss) != N_ITER:
                v = ("sample-count", f"client {cid}: {len(ss)} samples for {len(invocations)} executed invocations (expected {N_ITER})")
                break
            ys = handles[cid]._verif_yields
            for k, s in enumerate(ss):
                entries = log_by[(cid, k)]
                aborted = (err in ("api-2nd", "timeout-2nd") and k == 1) or (err == "api-1st" and k == 0)
                first, last = entries[0], entries[-1]
                if not aborted and len(entries) != wire:
                    v = ("wire-requests", f"client {cid} invocation {k}: {len(entries)} wire requests")
                    break
                svc = last["t_end"] - first["t_start"]
                sched = ys[k][0]
                issue = first["t_start"] - pre
                want_proc = (last["t_end"] - issue) if aborted else (last["t_end"] + post - issue)
                # independent reference of the scheduled time (deterministic pacing): k * clients * weight / target, weight counted only
                # when the target is given in the runner's unit; not defined here when the very first invocation fails (no feedback yet)
                want_sched = None
                if isinstance(thr, tuple) and thr[0] == "custom":
                    want_sched = (k + 1) * thr[1]  # the user-defined scheduler paces every client on its own, starting with next(0)
                elif thr is not None and err != "api-1st":
                    if isinstance(thr, tuple):
                        rate, tunit = 1.0 / thr[1], "ops/s"
                    elif isinstance(thr, str):
                        rate, tunit = float(thr.split()[0]), thr.split()[1]
                    else:
                        rate, tunit = float(thr), "ops/s"
                    want_sched = k * (weight if f"{unit}/s" == tunit else 1) * clients / rate
                ctx = f"client {cid} invocation {k} (scheduled {sched}, issued {issue}, wire {first['t_start']}..{last['t_end']})"
                if s.task is not task or s.client_id != cid:
                    v = ("sample-identity", f"{ctx}: task/client {s.task}/{s.client_id}")
                elif abs(s.service_time - svc) > TOL:
                    v = ("service-time", f"{ctx}: service_time {s.service_time}, request took {svc}")
                elif s.service_time < -TOL or s.processing_time < s.service_time - TOL:
                    v = ("time-order", f"{ctx}: processing {s.processing_time} service {s.service_time}")
                elif abs(s.processing_time - want_proc) > TOL:
                    v = ("processing-time", f"{ctx}: processing_time {s.processing_time}, expected {want_proc}")
                elif abs((s.absolute_time - EPOCH) - issue) > 1e-6:
                    v = ("issue-time", f"{ctx}: absolute_time {s.absolute_time - EPOCH}")
                elif abs(s.request_start - first["t_start"]) > TOL:
                    v = ("request-start", f"{ctx}: request_start {s.request_start}")
                elif want_sched is not None and abs(sched - want_sched) > TOL:
                    v = ("scheduled-time", f"{ctx}: the schedule yielded {sched}, the target throughput puts invocation {k} at {want_sched}")
                elif sched > 0:
                    if issue - t0 < sched - TOL:
                        v = ("issued-before-schedule", f"{ctx}")
                    elif abs(s.latency - (last["t_end"] - t0 - sched)) > TOL:
                        v = ("latency-throttled", f"{ctx}: latency {s.latency}, response arrived {last['t_end'] - t0 - sched} after the scheduled time")
                    elif s.latency < s.service_time - TOL:
                        v = ("latency-below-service-time", f"{ctx}: latency {s.latency} service {s.service_time}")
                elif abs(s.latency - s.service_time) > TOL:
                    v = ("latency-unthrottled", f"{ctx}: latency {s.latency} != service_time {s.service_time}")
                if v is None:
                    want_success = not aborted and not (err == "unsuccessful-2nd" and k == 1)
                    if bool(s.request_meta_data.get("success")) != want_success:
                        v = ("success-flag", f"{ctx}: meta {s.request_meta_data}")
                    elif s.total_ops != (0 if aborted else weight) or (not aborted and s.total_ops_unit != unit):
                        v = ("weight-unit", f"{ctx}: {s.total_ops} {s.total_ops_unit}")
                    elif s.sample_type != ys[k][1]:
                        v = ("sample-type", f"{ctx}: {s.sample_type} vs schedule {ys[k][1]}")
                if v:
                    break
            if v:
                break
    throttled = thr is not None
    res.case(
        case_repr={"clients": clients, "target": thr, "service_times": list(word), "weight_unit": [weight, unit], "errors": err,
                   "overhead": [pre, post], "wire_requests": wire, "schedule": list(ch.choices)}
        if res.sample_now(9973)
        else None,
        nontrivial_key=(cfg, tuple(ch.choices)) if throttled or err != "none" or clients > 1 else None,
        outcome_key=(len(r.samples), tuple(round(s.latency, 6) for s in r.samples[:6]), v[0] if v else "ok"),
    )
    if v:
        res.violation(
            f"timing:{v[0]}:{'throttled' if throttled else 'unthrottled'}" + (":multi-request" if wire > 1 else "") + (":error" if err != "none" else ""),
            f"clients={clients} target={thr} service_times={list(word)} weight/unit={weight}/{unit} errors={err} overhead={pre}/{post} setup={t0} wire={wire} "
            f"schedule={list(ch.choices)}: {v[1]}",
            {"cfg": [clients, list(thr) if isinstance(thr, tuple) else thr, list(word), [weight, unit], err, list(ovh), wire], "choices": list(ch.choices)},
        )


def cb_configs(tier):
    """completed-by family: an unthrottled task A that completes its parent next to a throttled sibling B on the same worker"""
    for a_iter in (1, 2, 3):
        for a_svc in (0.0625, 0.5, 3.0):
            for b_clients in (1, 2):
                for b_interval in (0.5, 2.0):
                    for b_svc in (0.0625, 1.0):
                        for mode in ("task", "any"):
                            if tier == "quick" and mode == "any" and (a_iter == 3 or b_clients == 2):
                                continue
                            yield ("cb", a_iter, a_svc, b_clients, b_interval, b_svc, mode)


def check_cb(cfg, ch, res):
    _, a_iter, a_svc, b_clients, b_interval, b_svc, mode = cfg
    ta = loadgen.make_task("a", "a", clients=1, iterations=a_iter, completes_parent=mode == "task", any_completes_parent=mode == "any")
    tb = loadgen.make_task("b", "b", clients=b_clients, iterations=40, any_completes_parent=mode == "any", params={"target-interval": b_interval / b_clients})
    allocs = [(0, loadgen.allocation(ta, 0, 0, 1 + b_clients))] + [(1 + i, loadgen.allocation(tb, i, 1 + i, 1 + b_clients)) for i in range(b_clients)]

    def behaviour(entry):
        return {"service_time": a_svc if "/verif/a/" in entry["target"] else b_svc, "body": {"ok": True}}

    r = loadgen.run_worker(allocs, behaviour, on_error="continue", chooser=ch)
    v = None
    a_end = None
    if r.error is not None or r.loop_errors:
        v = ("raises", f"{type(r.error).__name__ if r.error else ''}: {r.error} {r.loop_errors[:1]}")
    else:
        a_log = [e for e in r.log if "/verif/a/" in e["target"]]
        a_end = max(e["t_end"] for e in a_log) if a_log else None
        if len(a_log) != a_iter:
            v = ("sample-count", f"the completing task issued {len(a_log)} of {a_iter} requests")
        for cid in range(1, 1 + b_clients):
            if v:
                break
            ss = [s for s in r.samples if s.client_id == cid]
            lg = sorted((e for e in r.log if e["client_id"] == cid), key=lambda e: e["t_start"])
            if len(ss) != len(lg):
                v = ("sample-count", f"client {cid}: {len(ss)} samples for {len(lg)} requests")
                break
            for k, (s_, e) in enumerate(zip(ss, lg)):
                want_sched = k * b_interval
                svc = e["t_end"] - e["t_start"]
                ctx = f"sibling client {cid} invocation {k} (scheduled {want_sched}, wire {e['t_start']}..{e['t_end']}, completing task ended at {a_end})"
                if abs(s_.service_time - svc) > TOL:
                    v = ("service-time", f"{ctx}: service_time {s_.service_time}, request took {svc}")
                elif want_sched > 0 and e["t_start"] < want_sched - TOL:
                    v = ("issued-before-schedule", ctx)
                elif want_sched > 0 and abs(s_.latency - (e["t_end"] - want_sched)) > TOL:
                    v = ("latency-throttled", f"{ctx}: latency {s_.latency}, response arrived {e['t_end'] - want_sched} after the scheduled time")
                elif want_sched > 0 and s_.latency < s_.service_time - TOL:
                    v = ("latency-below-service-time", f"{ctx}: latency {s_.latency} service {s_.service_time}")
                elif want_sched == 0 and abs(s_.latency - s_.service_time) > TOL:
                    v = ("latency-unthrottled", f"{ctx}: latency {s_.latency} != service_time {s_.service_time}")
                if v:
                    break
    res.case(
        case_repr={"family": "completed-by", "completing_task": {"iterations": a_iter, "service_time": a_svc}, "sibling": {"clients": b_clients,
                   "interval": b_interval, "service_time": b_svc}, "mode": mode, "schedule": list(ch.choices), "completing_task_ended": a_end}
        if res.sample_now(211)
        else None,
        nontrivial_key=(cfg, tuple(ch.choices)),
        outcome_key=("cb", len(r.samples), v[0] if v else "ok"),
    )
    if v:
        res.violation(
            f"timing:{v[0]}:throttled:completed-by",
            f"completed-by ({mode}) A: {a_iter} x {a_svc}s; sibling B: {b_clients} clients, one request every {b_interval}s per client, {b_svc}s each; schedule={list(ch.choices)}: {v[1]}",
            {"cb": list(cfg), "choices": list(ch.choices)},
        )


def _job_cb(arg):
    cfgs, bound = arg
    res = Result()
    for cfg in cfgs:
        explore.explore_subtree(lambda ch, r, cfg=cfg: check_cb(cfg, ch, r), (), bound, res, max_exec=300)
    return res


def _job(arg):
    cfgs, bound = arg
    res = Result()
    for cfg in cfgs:
        b = bound if cfg[0] == 2 and len(cfg[2]) == 1 and cfg[6] == 1 else 0
        explore.explore_subtree(lambda ch, r, cfg=cfg: check(cfg, ch, r), (), b, res, max_exec=300)
    return res


def run(tier, seed):
    cfgs = list(configs(tier))
    bound = 1 if tier == "quick" else 2
    res = par.pmap(_job, [(c, bound) for c in par.chunks(cfgs, par.NPROC * 8)], seed=seed)
    cbs = list(cb_configs(tier))
    res.merge(par.pmap(_job_cb, [(c, 1) for c in par.chunks(cbs, par.NPROC * 2)], seed=seed))
    res.extra["configurations"] = len(cfgs)
    res.extra["completed_by_configurations"] = len(cbs)
    res.bound_completed = f"{bound} on two-client single-word configurations, 0 elsewhere" if res.exhaustive else "capped"
    res.states = res.evaluations
    return res


def replay(data):
    res = Result()
    if "cb" in data:
        check_cb(tuple(data["cb"]), explore.Chooser(tuple(data["choices"])), res)
        return [v for lst in res.violations.values() for v in lst]
    c = data["cfg"]
    cfg = (c[0], tuple(c[1]) if isinstance(c[1], list) else c[1], tuple(c[2]), tuple(c[3]), c[4], tuple(c[5]), c[6])
    check(cfg, explore.Chooser(tuple(data["choices"])), res)
    return [v for lst in res.violations.values() for v in lst]
