"""Process-level sharding of an enumeration (16 cores).

Workers are forked from the already-initialised parent (clock seams installed,
esrally imported), are long-lived, and each returns a partial Result that the
parent merges.  The *set* of work items never depends on VERIF_SEED; only the order
in which shards are handed out is rotated by it.
"""
import multiprocessing
import os
import sys
import traceback

from mc.core import Result

NPROC = int(os.environ.get("VERIF_PROCS", "0")) or min(16, os.cpu_count() or 1)

_FN = None


def _call(item):
    try:
        return _FN(item)
    except BaseException:  # noqa -- a harness crash must never look like a pass
        return ("__harness_error__", traceback.format_exc(), repr(item)[:500])


class HarnessError(Exception):
    pass


def pmap(fn, items, procs=None, chunksize=1, seed=0):
    """run fn(item)->Result over items, merge.  fn must be a module-level function."""
    global _FN
    items = list(items)
    if seed and items:
        k = seed % len(items)
        items = items[k:] + items[:k]
    procs = procs or NPROC
    total = Result()
    if procs <= 1 or len(items) <= 1:
        for it in items:
            r = fn(it)
            total.merge(r)
        return total
    _FN = fn
    ctx = multiprocessing.get_context("fork")
    sys.stdout.flush()
    sys.stderr.flush()
    with ctx.Pool(min(procs, len(items))) as pool:
        for r in pool.imap_unordered(_call, items, chunksize):
            if isinstance(r, tuple) and r and r[0] == "__harness_error__":
                pool.terminate()
                raise HarnessError(f"worker failed on item {r[2]}:\n{r[1]}")
            total.merge(r)
    return total


def chunks(seq, n):
    """split a list into roughly n contiguous chunks (deterministic)"""
    seq = list(seq)
    if not seq:
        return []
    n = max(1, min(n, len(seq)))
    size = (len(seq) + n - 1) // n
    return [seq[i : i + size] for i in range(0, len(seq), size)]
