"""One complete simulated race: the real DriverActor / TrackPreparationActor / TaskExecutionActor / Worker actors, the real
Driver, Allocator, AsyncIoAdapter, AsyncExecutor, runners and Rally async client, driven by mc/actorsim.py (transport, timers,
baton threads) on the virtual clock against the simulated Elasticsearch node.  Race control is the environment.

Stubs (read ~/.rally, DNS, git; anchored by no property): driver.load_local_config (identity), driver.load_track,
driver.load_track_plugins, track.load_track_plugins, net.resolve, log.post_configure_actor_logging.
"""
import asyncio
import datetime
import json
import os
import shutil
import tempfile

from mc import vclock

vclock.install()

import thespian.actors as ta  # noqa: E402

from mc import actorsim, fakees, loadgen, vloop  # noqa: E402
from mc.vclock import CLOCK  # noqa: E402

_S = {}


def setup():
    if _S:
        return _S
    e = loadgen.setup()
    from esrally import actor, config, log, metrics
    from esrally.driver import driver
    from esrally.track import loader
    from esrally.track import track as trackmod
    from esrally.utils import console, net, opts

    log.post_configure_actor_logging = lambda: None
    driver.load_local_config = lambda cfg: cfg
    driver.load_track = lambda cfg, install_dependencies=False: None
    _S["track_plugin_hook"] = None

    def load_track_plugins(cfg, track_name, register_runner=None, register_scheduler=None, register_track_processor=None, force_update=False):
        hook = _S.get("track_plugin_hook")
        if hook and register_track_processor:
            hook(register_track_processor)
        return False

    driver.load_track_plugins = load_track_plugins
    import esrally.track as trackpkg

    trackpkg.load_track_plugins = load_track_plugins
    loader.load_track_plugins = load_track_plugins
    net.resolve = lambda h: h
    console.init(quiet=True)
    # the virtual loop factory: the unmodified AsyncIoAdapter.__call__ calls asyncio.new_event_loop() on its executor thread
    real_new_loop = asyncio.new_event_loop

    def new_event_loop():
        sim = _S.get("sim")
        if sim is not None and sim.current_thread is not None:
            t = sim.current_thread
            return vloop.VLoop(wait_hook=t.wait_until, horizon=None, max_steps=5_000_000)
        return real_new_loop()

    asyncio.new_event_loop = new_event_loop
    d = tempfile.mkdtemp(prefix="verif-race-")
    static = os.path.join(d, "static.json")
    with open(static, "w") as f:
        json.dump([{"path": "*", "body": {}}], f)
    import atexit

    atexit.register(lambda: shutil.rmtree(d, ignore_errors=True))
    _S.update(e)
    _S.update(actor=actor, config=config, driver=driver, metrics=metrics, opts=opts, scratch=d, static=static, trackmod=trackmod, loader=loader)
    return _S


def scratch_dir():
    """per process (worker processes are forked after setup())"""
    s = setup()
    d = os.path.join(s["scratch"], f"p{os.getpid()}")
    os.makedirs(d, exist_ok=True)
    return d


def make_config(hosts, cores, on_error="continue", test_mode=False, extra=None):
    s = setup()
    config, opts = s["config"], s["opts"]
    cfg = config.Config()
    A = config.Scope.application
    cfg.add(A, "system", "env.name", "verif")
    cfg.add(A, "system", "time.start", datetime.datetime(2026, 1, 1))
    cfg.add(A, "system", "race.id", "verif-race")
    cfg.add(A, "system", "available.cores", cores)
    cfg.add(A, "system", "offline.mode", True)
    cfg.add(A, "system", "quiet.mode", False)
    cfg.add(A, "node", "root.dir", scratch_dir())
    cfg.add(A, "node", "rally.root", os.path.join(os.environ.get("VERIF_REPO", "/repo"), "esrally"))
    cfg.add(A, "track", "challenge.name", "c")
    cfg.add(A, "track", "params", {})
    cfg.add(A, "track", "test.mode.enabled", test_mode)
    cfg.add(A, "telemetry", "devices", [])
    cfg.add(A, "telemetry", "params", {})
    cfg.add(A, "mechanic", "car.names", ["external"])
    cfg.add(A, "mechanic", "skip.rest.api.check", True)
    th = opts.TargetHosts("127.0.0.1:9200")
    cfg.add(A, "client", "hosts", th)
    cfg.add(A, "client", "options", opts.ClientOptions(json.dumps({"default": {"timeout": 60, "static_responses": s["static"]}}), target_hosts=th))
    cfg.add(A, "driver", "load_driver_hosts", list(hosts))
    cfg.add(A, "driver", "on.error", on_error)
    cfg.add(A, "driver", "profiling", False)
    cfg.add(A, "driver", "assertions", False)
    cfg.add(A, "reporting", "datastore.type", "in-memory")
    cfg.add(A, "benchmarks", "local.dataset.cache", os.path.join(scratch_dir(), "data"))
    for (sec, k), v in (extra or {}).items():
        cfg.add(A, sec, k, v)
    return cfg


def make_track(schedule):
    s = setup()
    t = s["trackmod"]
    ch = t.Challenge("c", default=True, schedule=schedule)
    return t.Track(name="verif", challenges=[ch])


class Race:
    """result of one simulated race"""


class RaceControl:
    """the environment: what racecontrol's BenchmarkActor does towards the driver, plus a record of everything it is told"""

    def __init__(self, sim, cfg, track, driver_addr, metrics_store=None):
        self.sim, self.cfg, self.track, self.driver_addr = sim, cfg, track, driver_addr
        self.received = []  # (time, type name, msg)
        self.store = metrics_store
        self.phase = "init"

    def start(self):
        d = setup()["driver"]
        self.sim.tell(self.driver_addr, d.PrepareBenchmark(self.cfg, self.track))
        self.phase = "preparing"

    def on_message(self, now, msg):
        d = setup()["driver"]
        name = type(msg).__name__
        self.received.append((now, name, msg))
        if isinstance(msg, d.PreparationComplete) and self.phase == "preparing":
            self.phase = "running"
            self.sim.tell(self.driver_addr, d.StartBenchmark())
        elif isinstance(msg, d.TaskFinished):
            if self.store is not None:
                self.store.bulk_add(msg.metrics)
        elif isinstance(msg, d.BenchmarkComplete):
            if self.store is not None:
                self.store.bulk_add(msg.metrics)
            self.phase = "complete"
        elif name in ("BenchmarkFailure", "BenchmarkCancelled"):
            self.phase = "failed" if name == "BenchmarkFailure" else "cancelled"

    def names(self):
        return [n for _t, n, _m in self.received]


def run_race(schedule, hosts, cores, behaviour, chooser, offsets=None, on_error="continue", horizon=600.0, cfg_extra=None,
             faults=None, test_mode=False, on_sim=None, shutdown_after=True, store=False, max_steps=20000, track_plugin_hook=None,
             rc_factory=None, schedule_track=None, linger=0.0, line_preempt=False, top_factory=None, thread_preempt=False):
    """runs one race under the given chooser.  Returns Race(status, rc, log, sim, ...)"""
    s = setup()
    driver = s["driver"]
    cfg = make_config(hosts, cores, on_error=on_error, test_mode=test_mode, extra=cfg_extra)
    trk = make_track(schedule)
    s["track_plugin_hook"] = track_plugin_hook
    CLOCK.start(now=0.0, sleep_mode="error")
    fakees.CLUSTER.reset(behaviour)
    sim = actorsim.ActorSim(chooser, horizon=horizon, offsets=offsets or {}, max_steps=max_steps)
    if line_preempt:
        sim.line_preempt = lambda code: code.co_filename.endswith("esrally/driver/driver.py")
    if thread_preempt:
        # the executor thread can be preempted between the lines of Sampler.add (the one place where it writes to a structure that the
        # worker's actor thread reads)
        sim.thread_line_preempt = lambda code: code.co_name == "add" and code.co_filename.endswith("esrally/driver/driver.py")
    s["sim"] = sim
    r = Race()
    r.sim = sim
    r.error = None
    try:
        try:
            mstore = None
            if top_factory is not None:
                # the real race control actor is the top of the hierarchy (it creates mechanic and driver itself); the environment is
                # what racecontrol.race() does: ask Setup, wait for the first answer, tell the actor to exit
                rc = top_factory(sim, cfg, trk)
                daddr = rc.addr
            else:
                daddr = sim.create_actor(driver.DriverActor, parent=sim.external)
                if store:
                    mstore = s["metrics"].InMemoryMetricsStore(cfg)
                    mstore.open("verif-race", datetime.datetime(2026, 1, 1), "verif", "c", "external", create=True)
                rc = rc_factory(sim, cfg, trk, daddr, mstore) if rc_factory else RaceControl(sim, cfg, trk, daddr, mstore)
            r.rc = rc
            r.driver_addr = daddr
            seen = [0]

            def pump():
                while seen[0] < len(sim.outbox):
                    now, msg = sim.outbox[seen[0]]
                    seen[0] += 1
                    rc.on_message(now, msg)

            for f in faults or []:
                sim.faults.append(f)
            if on_sim:
                on_sim(sim, rc)
            rc.start()

            ended = [None]

            def until(sim_):
                pump()
                if rc.phase in ("complete", "failed", "cancelled"):
                    if ended[0] is None:
                        ended[0] = CLOCK.now
                    # race control may take a while until it tears the actor system down (linger): the actors keep running meanwhile
                    return linger <= 0 or rc.phase == "complete" or getattr(rc, "exit_sent", False) or CLOCK.now >= ended[0] + linger
                return False

            r.status = sim.run(until=until)
            pump()
            r.end_time = CLOCK.now
            r.phase = rc.phase
            r.threads_left = None
            if shutdown_after:
                # race control shuts the actor system down: recursive ActorExitRequest from the top
                sim.phase = "shutdown"
                if not getattr(rc, "exit_sent", False):
                    sim.tell(daddr, ta.ActorExitRequest())
                r.shutdown_status = sim.run(until=lambda s_: (pump() or False))
                pump()
                r.threads_left = [t.name for t in sim.threads if t.state not in ("finished", "dead", "killed")]
        except actorsim.Deadlock as ex:
            r.status = "deadlock"
            r.error = ex
            r.phase = getattr(r, "rc", None).phase if hasattr(r, "rc") else "init"
            r.end_time = CLOCK.now
    finally:
        try:
            sim.shutdown()
        finally:
            s["sim"] = None
            CLOCK.stop()
    r.log = list(fakees.CLUSTER.log)
    r.handler_errors = [h for h in sim.handler_errors if h[4] == "main"]
    r.shutdown_errors = [h for h in sim.handler_errors if h[4] != "main"]
    r.received = list(r.rc.received) if hasattr(r, "rc") else []
    r.steps = sim.steps
    return r
