"""The simulated Elasticsearch endpoint.  Everything above the HTTP node (client factory, transport, the Rally client
subclass with its request-context bookkeeping, the runners) is the real code; only RallyAiohttpHttpNode.perform_request
is replaced by a coroutine that logs the request, spends the configured service time on the virtual loop and answers."""
import asyncio
import json

from mc.vclock import CLOCK


class FakeCluster:
    """behaviour(entry) -> dict(service_time=float, status=int, body=obj|bytes, raise_=Exception|None, headers=dict)"""

    def __init__(self, behaviour=None):
        self.log = []
        self.behaviour = behaviour or (lambda entry: {})
        self.inflight = 0
        self.max_inflight = 0

    def reset(self, behaviour=None):
        self.log = []
        self.inflight = 0
        self.max_inflight = 0
        if behaviour is not None:
            self.behaviour = behaviour


CLUSTER = FakeCluster()
_installed = False


def install():
    global _installed
    if _installed:
        return
    from elastic_transport import ApiResponseMeta, HttpHeaders
    from elastic_transport._node._base import NodeApiResponse

    from esrally.client import asynchronous

    async def perform_request(self, method, target, body=None, headers=None, request_timeout=None):
        asynchronous.RallyAsyncElasticsearch.on_request_start()
        entry = {
            "seq": len(CLUSTER.log),
            "t_start": CLOCK.now,
            "t_end": None,
            "client_id": getattr(self, "client_id", None),
            "method": method,
            "target": target,
            "body": body,
            "headers": dict(headers) if headers else {},
        }
        CLUSTER.log.append(entry)
        CLUSTER.inflight += 1
        CLUSTER.max_inflight = max(CLUSTER.max_inflight, CLUSTER.inflight)
        try:
            out = CLUSTER.behaviour(entry) or {}
            st = out.get("service_time", 0.0)
            if st:
                await asyncio.sleep(st)
        finally:
            CLUSTER.inflight -= 1
            asynchronous.RallyAsyncElasticsearch.on_request_end()
            entry["t_end"] = CLOCK.now
        if out.get("raise_") is not None:
            entry["outcome"] = type(out["raise_"]).__name__
            raise out["raise_"]
        status = out.get("status", 200)
        entry["outcome"] = status
        payload = out.get("body", {})
        raw = payload if isinstance(payload, bytes) else json.dumps(payload).encode("utf-8")
        if method == "HEAD":
            raw = b""
        hdr = HttpHeaders(dict({"content-type": "application/json", "x-elastic-product": "Elasticsearch"}, **out.get("headers", {})))
        meta = ApiResponseMeta(status=status, http_version="1.1", headers=hdr, duration=st, node=self.config)
        return NodeApiResponse(meta, raw)

    async def close(self):
        return None

    asynchronous.RallyAiohttpHttpNode.perform_request = perform_request
    asynchronous.RallyAiohttpHttpNode.close = close
    _installed = True


def make_async_client(client_id=0, client_options=None):
    from esrally import client

    opts = {"timeout": 60}
    opts.update(client_options or {})
    return client.EsClientFactory(hosts=[{"host": "127.0.0.1", "port": 9200}], client_options=opts).create_async(client_id=client_id)
