"""Stateless, deviation-bounded exploration of choice sequences (CHESS-style iterative bounding).

run(ch) builds fresh real objects and calls ch.choose(n, kind) wherever more than one continuation exists.
Choice 0 is the canonical default; every other pick costs one deviation (unless the point is declared free).
explore() replays a prefix, then defaults, and branches on every later point whose alternatives stay within the bound.
"""
from mc import par
from mc.core import Result


class Divergence(RuntimeError):
    """replaying a recorded prefix met a different choice point: harness nondeterminism, never a violation"""


class Chooser:
    __slots__ = ("prefix", "choices", "points", "kinds_expected")

    def __init__(self, prefix=(), kinds_expected=None):
        self.prefix = tuple(prefix)
        self.choices = []
        self.points = []  # (n, free, kind)
        self.kinds_expected = kinds_expected

    def choose(self, n, kind="", free=False):
        if n <= 1:
            return 0
        i = len(self.choices)
        if i < len(self.prefix):
            c = self.prefix[i]
            if c >= n:
                raise Divergence(f"choice {i}: recorded pick {c} but only {n} alternatives ({kind})")
            if self.kinds_expected is not None and i < len(self.kinds_expected) and self.kinds_expected[i] != kind:
                raise Divergence(f"choice {i}: recorded kind {self.kinds_expected[i]!r} but now {kind!r}")
        else:
            c = 0
        self.choices.append(c)
        self.points.append((n, free, kind))
        return c

    @property
    def deviations(self):
        return sum(1 for c, (n, free, k) in zip(self.choices, self.points) if c and not free)

    def kinds(self):
        return [k for (_n, _f, k) in self.points]


class Pruned(Exception):
    """the execution reached a canonical state whose futures are explored from its first visit"""


class StatefulChooser(Chooser):
    """explicit-state variant: the harness reports a canonical state hash before every choice point; beyond the replayed prefix
    an already seen state ends the execution (its successors are explored from the first visit)"""

    __slots__ = ("seen", "visited_new")

    def __init__(self, prefix, seen):
        super().__init__(prefix)
        self.seen = seen
        self.visited_new = 0

    def visit(self, state_hash):
        if len(self.choices) < len(self.prefix):
            return
        if state_hash in self.seen:
            raise Pruned()
        self.seen.add(state_hash)
        self.visited_new += 1


def explore_states(run_and_check, res, max_states=200000):
    """exhaustive explicit-state search: run_and_check(ch, res) must call ch.visit(hash) before each ch.choose() and let Pruned
    propagate.  Every alternative at every choice point is explored (no deviation bound); terminates when no new state appears."""
    seen = set()
    stack = [()]
    while stack:
        prefix = stack.pop()
        ch = StatefulChooser(prefix, seen)
        try:
            run_and_check(ch, res)
            res.traces += 1
        except Pruned:
            res.count("executions_pruned_at_seen_state")
        res.transitions += len(ch.choices) - len(ch.prefix) if len(ch.choices) > len(ch.prefix) else 0
        res.max_depth = max(res.max_depth, len(ch.choices))
        plen = len(prefix)
        for i in range(plen, len(ch.choices)):
            n = ch.points[i][0]
            base = tuple(ch.choices[:i])
            for alt in range(1, n):
                stack.append(base + (alt,))
        if len(seen) > max_states:
            res.cap(f"state cap {max_states}")
            break
    res.states += len(seen)
    return len(seen)


def children(ch, bound):
    """prefixes that deviate from execution `ch` at one point after its own prefix, within the bound"""
    out = []
    cost = 0
    plen = len(ch.prefix)
    for i, (c, (n, free, _k)) in enumerate(zip(ch.choices, ch.points)):
        if i >= plen:
            extra = 0 if free else 1
            if cost + extra <= bound:
                base = tuple(ch.choices[:i])
                for alt in range(1, n):
                    out.append(base + (alt,))
        if c and not free:
            cost += 1
    return out


def explore_subtree(run_and_check, root_prefix, bound, res, max_exec=None):
    """DFS below root_prefix.  run_and_check(ch, res) runs one execution and records violations itself."""
    stack = [tuple(root_prefix)]
    n = 0
    while stack:
        prefix = stack.pop()
        ch = Chooser(prefix)
        run_and_check(ch, res)
        n += 1
        res.traces += 1
        res.choice_points += len(ch.points)
        res.transitions += len(ch.choices)
        res.max_depth = max(res.max_depth, len(ch.choices))
        if res.violation_count >= 5 and len(res.violations) >= 1 and n >= 5:
            # enough counterexamples below this subtree root; stop spending time on it (the run is failing anyway)
            res.count("subtrees_abandoned_after_violations")
            break
        if max_exec is not None and n >= max_exec:
            if stack or children(ch, bound):
                res.cap(f"execution cap {max_exec} per subtree")
            break
        stack.extend(reversed(children(ch, bound)))
    return n


_JOB = None


def total_explore_after_root_violation():
    import os

    return bool(os.environ.get("VERIF_EXPLORE_AFTER_VIOLATION"))


def _subtree_job(item):
    fn, cfg, prefix, bound, max_exec = _JOB[0], item[0], item[1], item[2], item[3]
    res = Result()
    explore_subtree(lambda ch, r: fn(cfg, ch, r), prefix, bound, res, max_exec)
    return res


def explore_parallel(fn, configs, bound, seed=0, max_exec_per_subtree=None, procs=None):
    """fn(cfg, ch, res) is a module-level function.  For every configuration: run the default schedule in the parent,
    then hand every first-level deviation (a subtree root) to the worker pool."""
    global _JOB
    total = Result()
    jobs = []
    for cfg in configs:
        ch = Chooser(())
        before = total.violation_count
        fn(cfg, ch, total)
        if total.violation_count > before and not total_explore_after_root_violation():
            # the default schedule already violates: that is the counterexample with the fewest deviations
            total.traces += 1
            total.count("configurations_violating_on_default_schedule")
            continue
        total.traces += 1
        total.choice_points += len(ch.points)
        total.transitions += len(ch.choices)
        total.max_depth = max(total.max_depth, len(ch.choices))
        for p in children(ch, bound):
            jobs.append((cfg, p, bound, max_exec_per_subtree))
    _JOB = (fn,)
    r = par.pmap(_subtree_job, jobs, procs=procs, seed=seed, chunksize=max(1, len(jobs) // (par.NPROC * 8) or 1))
    total.merge(r)
    total.bound_completed = bound if total.exhaustive else f"{bound} (capped)"
    return total


def selftest():
    # 3 binary points: bound 0 -> 1 execution, 1 -> 4, 2 -> 7, 3 -> 8
    for bound, want in ((0, 1), (1, 4), (2, 7), (3, 8)):
        seen = set()

        def rc(ch, res):
            seen.add(tuple(ch.choose(2, "b") for _ in range(3)))

        res = Result()
        explore_subtree(rc, (), bound, res)
        assert len(seen) == want and res.traces == want, (bound, len(seen), res.traces)
