"""The owned clock.  install() must run before esrally is imported so that both `time.perf_counter()` and
`from time import perf_counter` styles see the dispatchers.  Outside an execution the real functions answer."""
import time as _time

_real_perf = _time.perf_counter
_real_time = _time.time
_real_mono = _time.monotonic
_real_sleep = _time.sleep

EPOCH = 1_700_000_000.0


class VClock:
    def __init__(self):
        self.active = False
        self.now = 0.0
        self.offset = 0.0  # perf_counter origin of the "current process" (set by the actor sim per simulated host)
        self.sleep_mode = "advance"  # or "error" (scheduled harness: nobody may block on the wall clock)
        self.sleeps = []

    def start(self, now=0.0, sleep_mode="advance"):
        self.active = True
        self.now = now
        self.offset = 0.0
        self.sleep_mode = sleep_mode
        self.sleeps = []

    def stop(self):
        self.active = False

    def advance_to(self, t):
        if t > self.now:
            self.now = t


CLOCK = VClock()


def perf_counter():
    if CLOCK.active:
        return CLOCK.now + CLOCK.offset
    return _real_perf()


def monotonic():
    if CLOCK.active:
        return CLOCK.now + CLOCK.offset
    return _real_mono()


def time():
    if CLOCK.active:
        return EPOCH + CLOCK.now
    return _real_time()


class SleepInScheduledHarness(RuntimeError):
    pass


def sleep(secs):
    if CLOCK.active:
        if CLOCK.sleep_mode == "error":
            raise SleepInScheduledHarness(f"time.sleep({secs}) inside a scheduled execution")
        CLOCK.sleeps.append(secs)
        CLOCK.now += max(0.0, secs)
        return None
    return _real_sleep(secs)


_installed = False


def install():
    global _installed
    if _installed:
        return
    import sys

    if "esrally" in sys.modules:
        raise RuntimeError("vclock.install() must run before esrally is imported")
    _time.perf_counter = perf_counter
    _time.monotonic = monotonic
    _time.time = time
    _time.sleep = sleep
    _installed = True


def real_time():
    return _real_time()
