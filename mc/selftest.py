"""MANIFEST.setup_cmd: nothing to build; compile every module and self-test the engines."""
import compileall
import importlib
import os
import sys

HERE = os.path.dirname(os.path.dirname(os.path.abspath(__file__)))


def main():
    sys.path.insert(0, os.environ.get("VERIF_REPO", "/repo"))
    ok = True
    for d in ("mc", "checks", "tools"):
        p = os.path.join(HERE, d)
        if os.path.isdir(p):
            ok = compileall.compile_dir(p, quiet=1, legacy=False, force=True) and ok
    sys.path.insert(0, HERE)
    from mc import vclock

    vclock.install()  # the clock seam must be in place before esrally is imported
    import esrally  # noqa

    for name in sorted(os.listdir(os.path.join(HERE, "mc"))):
        if name.endswith(".py") and name not in ("selftest.py", "runner.py", "__init__.py"):
            m = importlib.import_module("mc." + name[:-3])
            st = getattr(m, "selftest", None)
            if st:
                st()
                print(f"selftest mc.{name[:-3]} ok")
    # the simulated Thespian transport must be able to produce every trace recorded from the real Thespian system bases
    sys.path.insert(0, os.path.join(HERE, "tools"))
    import conformance_thespian

    conformance_thespian.selftest()
    print("selftest conformance with recorded Thespian traces ok")
    # ... and the virtual event loop every log recorded from the real asyncio loop
    import conformance_asyncio

    conformance_asyncio.selftest()
    print("selftest conformance with recorded asyncio logs ok")
    print("setup ok" if ok else "setup FAILED")
    return 0 if ok else 1


if __name__ == "__main__":
    sys.exit(main())
