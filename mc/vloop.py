"""Virtual-time asyncio loop: a BaseEventLoop without selector whose time() is the owned clock.

sequential mode: run_until_complete() advances virtual time itself when nothing is ready.
scheduled mode : `wait_hook(deadline)` is called instead (the baton scheduler parks the thread and the explorer decides
                 when time moves); it must return after CLOCK.now >= deadline or raise to abandon the execution.
Ties between timers that fall due at the same instant, and (optionally) the order of the ready queue, are choice points.
"""
import asyncio
import heapq
from asyncio import events

from mc.vclock import CLOCK


class LoopStalled(RuntimeError):
    """the awaited future is not done and the loop has neither ready callbacks nor timers: a deadlock"""


class HorizonReached(RuntimeError):
    pass


class VLoop(asyncio.BaseEventLoop):
    def __init__(self, chooser=None, wait_hook=None, horizon=None, max_steps=2_000_000, permute_ready=False):
        super().__init__()
        self._clock_resolution = 1e-9
        self.chooser = chooser
        self.wait_hook = wait_hook
        self.horizon = horizon
        self.max_steps = max_steps
        self.permute_ready = permute_ready
        self.steps = 0
        self.errors = []  # what the loop's exception handler saw
        self.set_exception_handler(self._on_error)

    def _on_error(self, loop, context):
        self.errors.append({k: repr(v) for k, v in context.items()})

    # ---- BaseEventLoop plumbing that would need a selector
    def time(self):
        return CLOCK.now

    def _process_events(self, event_list):
        pass

    def _write_to_self(self):
        pass

    def _make_socket_transport(self, *a, **k):
        raise NotImplementedError("no real I/O on the virtual loop")

    # ---- stepping
    def _move_due_timers(self):
        due = []
        end = CLOCK.now + self._clock_resolution
        sched = self._scheduled
        while sched and sched[0]._when < end:
            hnd = heapq.heappop(sched)
            hnd._scheduled = False
            if not hnd._cancelled:
                due.append(hnd)
        if len(due) > 1 and self.chooser is not None:
            # timers due at the same virtual instant: no order is more "default" than another (free choice)
            groups = {}
            for hnd in due:
                groups.setdefault(hnd._when, []).append(hnd)
            out = []
            for when in sorted(groups):
                g = groups[when]
                while len(g) > 1:
                    k = self.chooser.choose(len(g), "timer-tie", free=False)
                    out.append(g.pop(k))
                out.extend(g)
            due = out
        self._ready.extend(due)

    def step(self):
        self.steps += 1
        if self.steps > self.max_steps:
            raise HorizonReached(f"step limit {self.max_steps}")
        self._move_due_timers()
        if not self._ready:
            # drop cancelled heads
            while self._scheduled and self._scheduled[0]._cancelled:
                hnd = heapq.heappop(self._scheduled)
                hnd._scheduled = False
            if not self._scheduled:
                raise LoopStalled("nothing ready and no timer pending")
            deadline = self._scheduled[0]._when
            if self.horizon is not None and deadline > self.horizon:
                raise HorizonReached(f"virtual time horizon {self.horizon} (next timer at {deadline})")
            if self.wait_hook is not None:
                self.wait_hook(deadline)
            else:
                CLOCK.advance_to(deadline)
            self._move_due_timers()
        ntodo = len(self._ready)
        for _ in range(ntodo):
            if not self._ready:
                break
            if self.permute_ready and self.chooser is not None and len(self._ready) > 1:
                live = [i for i, hh in enumerate(self._ready) if not hh._cancelled]
                if len(live) > 1:
                    k = self.chooser.choose(len(live), "ready-order")
                    if k:
                        hnd = self._ready[live[k]]
                        del self._ready[live[k]]
                        self._ready.appendleft(hnd)
            hnd = self._ready.popleft()
            if hnd._cancelled:
                continue
            hnd._run()
        hnd = None

    def run_until_complete(self, future):
        self._check_closed()
        new_task = not asyncio.isfuture(future)
        future = asyncio.ensure_future(future, loop=self)
        if new_task:
            future._log_destroy_pending = False
        old = events._get_running_loop()
        events._set_running_loop(self)
        try:
            while not future.done():
                self.step()
        finally:
            events._set_running_loop(old)
        return future.result()

    def drain(self, max_rounds=200):
        """after the awaited future is done: let callbacks that are already due run (e.g. tasks that were cancelled by the code
        under test and must see their CancelledError in their own context), then cancel whatever is left and let that settle.
        Virtual time does not advance."""
        old = events._get_running_loop()
        events._set_running_loop(self)
        try:
            for phase in (0, 1):
                rounds = 0
                while self._ready and rounds < max_rounds:
                    rounds += 1
                    for _ in range(len(self._ready)):
                        hnd = self._ready.popleft()
                        if not hnd._cancelled:
                            hnd._run()
                if phase == 0:
                    left = [t for t in asyncio.all_tasks(self) if not t.done()]
                    if not left:
                        break
                    for t in left:
                        t.cancel()
        finally:
            events._set_running_loop(old)

    def run_forever(self):
        raise NotImplementedError

    def is_running(self):
        return events._get_running_loop() is self

    def close(self):
        if self.is_closed():
            return
        try:
            # tasks that are still pending (execution abandoned, or cancelled by the code under test) must unwind inside their own
            # contexts, not in the garbage collector
            self.drain()
        except BaseException:  # noqa
            pass
        self._closed = True
        self._ready.clear()
        self._scheduled.clear()


def run(coro, chooser=None, horizon=None, permute_ready=False):
    """sequential convenience: run one coroutine to completion on a fresh virtual loop"""
    loop = VLoop(chooser=chooser, horizon=horizon, permute_ready=permute_ready)
    try:
        return loop.run_until_complete(coro), loop
    finally:
        try:
            loop.drain()
        finally:
            loop.close()


def selftest():
    CLOCK.start()
    try:
        order = []

        async def a(n, d):
            await asyncio.sleep(d)
            order.append((n, CLOCK.now))

        async def main():
            await asyncio.gather(a(1, 2.0), a(2, 0.5), a(3, 1.0))
            return "done"

        r, loop = run(main())
        assert r == "done" and order == [(2, 0.5), (3, 1.0), (1, 2.0)], order
        assert not loop.errors
    finally:
        CLOCK.stop()
