"""Result / violation bookkeeping shared by every check.

A check module exposes
    ID, LEVEL, RULE, ASSUMPTIONS
    run(tier, seed) -> Result
    replay(data)    -> list[Violation]   (re-run one recorded case without the explorer)
"""
import hashlib
import json
import os


def repo_root():
    return os.environ.get("VERIF_REPO", "/repo")


def h(obj):
    """stable short hash of a JSON-able / repr-able object"""
    try:
        s = json.dumps(obj, sort_keys=True, default=repr)
    except (TypeError, ValueError):
        s = repr(obj)
    return hashlib.blake2b(s.encode("utf-8", "surrogatepass"), digest_size=8).hexdigest()


class Violation:
    __slots__ = ("signature", "message", "replay")

    def __init__(self, signature, message, replay):
        self.signature = signature  # class of the failure: oracle clause + minimal input class
        self.message = message
        self.replay = replay  # JSON-able dict understood by <check>.replay()

    def to_json(self):
        return {"signature": self.signature, "message": self.message, "replay": self.replay}

    @staticmethod
    def from_json(d):
        return Violation(d["signature"], d["message"], d["replay"])

    def __repr__(self):
        return f"Violation({self.signature!r}, {self.message!r})"


class Result:
    """Accumulates what a run covered.  Mergeable (workers return partial Results)."""

    MAX_SAMPLES = 6
    MAX_VIOL_PER_SIG = 3

    def __init__(self):
        self.evaluations = 0
        self.nontrivial = set()  # hashes of distinct non-trivial cases
        self.outcomes = set()  # hashes of distinct observable outcomes
        self.samples = []
        self.states = 0
        self.transitions = 0
        self.traces = 0
        self.choice_points = 0
        self.max_depth = 0
        self.exhaustive = True
        self.caps_hit = []
        self.bound_completed = None
        self.violations = {}  # signature -> [Violation]
        self.violation_count = 0
        self.extra = {}

    # -- recording -------------------------------------------------------
    def sample_now(self, every):
        """should the caller write this case out as an evidence sample?  the first case of every shard and every `every`-th one"""
        if len(self.samples) >= 3:
            return False
        return not self.samples or (self.evaluations % every) == (every // 2)

    def case(self, case_repr=None, nontrivial_key=None, outcome_key=None):
        self.evaluations += 1
        if nontrivial_key is not None:
            self.nontrivial.add(nontrivial_key if isinstance(nontrivial_key, str) else h(nontrivial_key))
        if outcome_key is not None:
            self.outcomes.add(outcome_key if isinstance(outcome_key, str) else h(outcome_key))
        if case_repr is not None and len(self.samples) < self.MAX_SAMPLES:
            self.samples.append(case_repr)

    def violation(self, signature, message, replay):
        self.violation_count += 1
        lst = self.violations.setdefault(signature, [])
        if len(lst) < self.MAX_VIOL_PER_SIG:
            lst.append(Violation(signature, message, replay))

    def cap(self, what):
        self.exhaustive = False
        if what not in self.caps_hit:
            self.caps_hit.append(what)

    def count(self, key, n=1):
        self.extra[key] = self.extra.get(key, 0) + n

    # -- merging -----------------------------------------------------------
    def merge(self, other):
        self.evaluations += other.evaluations
        self.nontrivial |= other.nontrivial
        self.outcomes |= other.outcomes
        for s in other.samples:
            if len(self.samples) < self.MAX_SAMPLES:
                self.samples.append(s)
        self.states += other.states
        self.transitions += other.transitions
        self.traces += other.traces
        self.choice_points += other.choice_points
        self.max_depth = max(self.max_depth, other.max_depth)
        self.exhaustive = self.exhaustive and other.exhaustive
        for c in other.caps_hit:
            if c not in self.caps_hit:
                self.caps_hit.append(c)
        if other.bound_completed is not None:
            if self.bound_completed is None:
                self.bound_completed = other.bound_completed
            elif isinstance(self.bound_completed, (int, float)) and isinstance(other.bound_completed, (int, float)):
                self.bound_completed = min(self.bound_completed, other.bound_completed)
        self.violation_count += other.violation_count
        for sig, lst in other.violations.items():
            mine = self.violations.setdefault(sig, [])
            for v in lst:
                if len(mine) < self.MAX_VIOL_PER_SIG:
                    mine.append(v)
        for k, v in other.extra.items():
            if isinstance(v, (int, float)) and not isinstance(v, bool):
                self.extra[k] = self.extra.get(k, 0) + v
            elif isinstance(v, list):
                cur = self.extra.setdefault(k, [])
                for x in v:
                    if x not in cur and len(cur) < 50:
                        cur.append(x)
            elif isinstance(v, dict):
                cur = self.extra.setdefault(k, {})
                for kk, vv in v.items():
                    if isinstance(vv, (int, float)) and not isinstance(vv, bool):
                        cur[kk] = cur.get(kk, 0) + vv
                    else:
                        cur.setdefault(kk, vv)
            else:
                self.extra.setdefault(k, v)
        return self
