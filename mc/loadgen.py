"""Harness around the real load-generator stack of one worker: AsyncIoAdapter.run -> schedule_for -> ScheduleHandle ->
AsyncExecutor -> execute_single -> registered runner -> real Rally async client -> simulated node, on the virtual loop.

A custom operation type "verif-op" (registered through the real runner registry) issues `wire` requests per invocation
with configurable client-side overhead; a custom parameter source "verif-source" numbers the invocations per client.
The schedule generator is wrapped (harness-side) so that the tuples it yields are observable.
"""
import asyncio
import threading

from mc import vclock

vclock.install()

from mc import fakees, vloop  # noqa: E402
from mc.vclock import CLOCK, EPOCH  # noqa: E402

_READY = {}

OP_TYPE = "verif-op"
SOURCE = "verif-source"


# injected faults that actually fired in the current run: (kind, task key, virtual time); cleared by the check before a run
FIRED = []


class Hosts:
    def __init__(self):
        self.all_hosts = {"default": [{"host": "127.0.0.1", "port": 9200}]}
        self.default = self.all_hosts["default"]


def setup():
    if _READY:
        return _READY
    import logging

    logging.disable(logging.CRITICAL)
    fakees.install()
    from esrally import config, metrics
    from esrally.driver import driver, runner
    from esrally.track import params, track

    runner.register_default_runners()

    class VerifSource(params.ParamSource):
        """one instance per task; partition() hands every client its own counter"""

        def __init__(self, track, params, **kwargs):
            super().__init__(track, params, **kwargs)
            self._client = None
            self._k = 0
            self.calls = []
            self._limit = params.get("source-size")
            self.fail_at = params.get("source-fails-at")

        def partition(self, partition_index, total_partitions):
            if self._params.get("partition-cost"):
                import time

                time.sleep(self._params["partition-cost"])  # (virtual) time spent setting this client up
            p = VerifSource(self.track, self._params)
            p._client = partition_index
            p._total = total_partitions
            _READY.setdefault("partitions", []).append(p)
            return p

        @property
        def infinite(self):
            if self._client is None and self._params.get("parent-infinite"):
                # like BulkIndexParamSource: the unpartitioned source keeps the inherited answer, only a partition knows that it is finite
                return True
            return self._limit is None

        @property
        def percent_completed(self):
            if self._limit is None:
                return None
            return self._k / self._limit

        def params(self):
            if self._limit is not None and self._k >= self._limit:
                raise StopIteration()
            if self.fail_at is not None and self._k == self.fail_at:
                FIRED.append(("source-raises", self._params.get("task-key"), CLOCK.now))
                raise RuntimeError("injected parameter source failure")
            d = dict(self._params)
            d["k"] = self._k
            d["client-index-in-task"] = self._client
            self._k += 1
            return d

    async def verif_op(es, params):
        k = params["k"]
        ci = params["client-index-in-task"]
        pre, post, wire = params.get("pre", 0), params.get("post", 0), params.get("wire", 1)
        if params.get("runner-fails-at") == k:
            FIRED.append(("runner-raises", params.get("task-key"), CLOCK.now))
            raise RuntimeError("injected runner failure")
        if pre:
            await asyncio.sleep(pre)
        for w in range(wire):
            if w:
                await asyncio.sleep(params.get("between", 0.0078125))
            await es.perform_request(method="GET", path=f"/verif/{params['task-key']}/{ci}/{k}/{w}")
        if post:
            await asyncio.sleep(post)
        out = {"weight": params.get("weight", 1), "unit": params.get("unit", "ops")}
        if params.get("weight-sequence"):
            # a runner whose requests differ in weight (the short last bulk of a file, then full bulks of the next one)
            out["weight"] = params["weight-sequence"][k % len(params["weight-sequence"])]
        uns = params.get("unsuccessful-at")
        if uns is not None and k in uns:
            FIRED.append(("unsuccessful", params.get("task-key"), CLOCK.now))
            out["success"] = False
        if params.get("runner-throughput") is not None:
            out["throughput"] = params["runner-throughput"]
        return out

    runner.register_runner(OP_TYPE, verif_op, async_runner=True)
    _READY["verif_op_fn"] = verif_op
    params.register_param_source_for_name(SOURCE, VerifSource)

    # observe the tuples the schedule yields (expected scheduled time, sample type, progress)
    orig_call = driver.ScheduleHandle.__call__

    async def recording(self):
        rec = self.__dict__.setdefault("_verif_yields", [])
        _READY.setdefault("handles", []).append(self)
        async for tup in orig_call(self):
            rec.append((tup[0], tup[1], tup[2], CLOCK.now))
            yield tup

    driver.ScheduleHandle.__call__ = recording

    _READY.update(config=config, metrics=metrics, driver=driver, runner=runner, params=params, track=track)
    return _READY


def make_task(name, key, clients=1, op_params=None, **task_kw):
    e = setup()
    track = e["track"]
    p = {"task-key": key}
    p.update(op_params or {})
    op = track.Operation(name + "-op", OP_TYPE, params=p, param_source=SOURCE)
    return track.Task(name, op, clients=clients, **task_kw)


def make_cfg(on_error="continue"):
    e = setup()
    config = e["config"]
    cfg = config.Config()
    cfg.add(config.Scope.application, "driver", "profiling", False)
    cfg.add(config.Scope.application, "driver", "assertions", False)
    cfg.add(config.Scope.application, "driver", "on.error", on_error)
    cfg.add(config.Scope.application, "client", "hosts", Hosts())
    cfg.add(config.Scope.application, "client", "options", type("O", (), {"all_client_options": {"default": {"timeout": 60}}, "default": {"timeout": 60}})())
    return cfg


class Run:
    pass


def run_worker(allocations, behaviour, on_error="continue", chooser=None, horizon=100_000.0, track=None, start_at=0.0, permute_ready=False):
    """allocations: list of (client_id, driver.TaskAllocation).  Runs the real AsyncIoAdapter.run() to completion on a fresh
    virtual loop.  Returns Run(samples, log, handles, error, loop_errors, end_time)"""
    e = setup()
    driver = e["driver"]
    cfg = make_cfg(on_error)
    # client options: AsyncIoAdapter reads cfg.opts("client", "options") and indexes it by cluster name
    cfg.add(e["config"].Scope.application, "client", "options", {"default": {"timeout": 60}})
    trk = track or e["track"].Track(name="verif")
    _READY["handles"] = []
    _READY["partitions"] = []
    CLOCK.start(now=start_at)
    fakees.CLUSTER.reset(behaviour)
    sampler = driver.Sampler(start_timestamp=vclock.perf_counter())
    cancel, complete = threading.Event(), threading.Event()
    ctxs = {cid: driver.ClientContext(client_id=cid, parent_worker_id=0) for cid, _ in allocations}
    allocs = [driver.ClientAllocation(client_id=cid, task=ta) for cid, ta in allocations]
    adapter = driver.AsyncIoAdapter(cfg, trk, allocs, sampler, cancel, complete, on_error, ctxs, 0)
    r = Run()
    r.error = None
    r.loop_errors = []
    try:
        try:
            _, loop = vloop.run(adapter.run(), chooser=chooser, horizon=horizon, permute_ready=permute_ready)
            r.loop_errors = loop.errors
        except BaseException as ex:  # noqa
            r.error = ex
    finally:
        r.end_time = CLOCK.now
        CLOCK.stop()
    r.samples = sampler.samples
    r.log = list(fakees.CLUSTER.log)
    r.handles = list(_READY["handles"])
    r.partitions = list(_READY["partitions"])
    r.complete_set = complete.is_set()
    r.cancel, r.complete = cancel, complete
    return r


def allocation(task, client_index_in_task, global_client_index=None, total_clients=None):
    e = setup()
    return e["driver"].TaskAllocation(
        task=task,
        client_index_in_task=client_index_in_task,
        global_client_index=client_index_in_task if global_client_index is None else global_client_index,
        total_clients=task.clients if total_clients is None else total_clients,
    )
