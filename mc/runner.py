"""./check <ID> [--tier quick|thorough] [--replay file]

exit 0  property held on everything explored (KNOWN-FINDING lines allowed)
exit 1  VIOLATION property=<id> replay=<path>
exit 2  harness error (import failure, divergence, nondeterminism, vacuous run) -- never a pass
"""
import argparse
import importlib
import json
import os
import re
import sys
import time
import traceback

HERE = os.path.dirname(os.path.dirname(os.path.abspath(__file__)))


def _setup_path():
    repo = os.environ.get("VERIF_REPO", "/repo")
    # the working tree that is checked: /repo unless a scratch tree is named
    sys.path.insert(0, repo)
    if HERE not in sys.path:
        sys.path.insert(0, HERE)


def load_findings():
    path = os.path.join(HERE, "known_findings.json")
    if not os.path.exists(path):
        return []
    with open(path) as f:
        data = json.load(f)
    return data.get("findings", [])


def _replay_child(arg):
    prop, data = arg
    mod = importlib.import_module(f"checks.{prop.lower()}")
    return [x.signature for x in mod.replay(data)]


def _replay_isolated(prop, data):
    import multiprocessing

    ctx = multiprocessing.get_context("fork")
    sys.stdout.flush()
    sys.stderr.flush()
    with ctx.Pool(1) as pool:
        return pool.apply(_replay_child, ((prop, data),))


def match_finding(findings, prop, signature):
    for f in findings:
        if f["property"] == prop and re.fullmatch(f["match"], signature):
            return f
    return None


def write_evidence(mod, tier, seed, res, wall, n_viol):
    cov = {
        "evaluations": res.evaluations,
        "distinct_nontrivial": len(res.nontrivial),
        "rule": mod.RULE,
        "samples": res.samples[: res.MAX_SAMPLES],
        "states": res.states,
        "transitions": res.transitions,
        "traces_validated_against_impl": res.traces,
        "exhaustive": bool(res.exhaustive),
        "distinct_outcomes": len(res.outcomes),
        "choice_points": res.choice_points,
        "max_depth": res.max_depth,
        "caps_hit": res.caps_hit,
        "bound_completed": res.bound_completed,
        "known_findings_reported": res.extra.pop("_known", []),
    }
    for k, v in res.extra.items():
        cov[k] = v
    # how the hand-written environment models under this check are bound to the real implementations (DESIGN.md 10.8)
    env_models = []
    if mod.ID in ("C01", "C07", "C09", "C11", "C12"):
        env_models.append("Thespian transport = mc/actorsim.py: every trace recorded from the real multiprocTCPBase / multiprocQueueBase (incl. a "
                          "three-system convention scenario) is reproduced by a schedule of the model (tools/conformance_thespian.py, run by setup_cmd)")
    if mod.ID in ("C01", "C04", "C05", "C07", "C09", "C11", "C16", "C18"):
        env_models.append("asyncio event loop = mc/vloop.py: the event log of conformance/aioprog.py on the real loop equals the model's default "
                          "schedule (tools/conformance_asyncio.py, run by setup_cmd)")
    if env_models:
        cov["environment_models_validated_against_implementation"] = env_models
    ev = {
        "property_id": mod.ID,
        "tier": tier,
        "seed": seed,
        "level": mod.LEVEL,
        "coverage": cov,
        "assumptions": list(getattr(mod, "ASSUMPTIONS", [])),
        "wall_s": round(wall, 3),
        "violations": n_viol,
    }
    os.makedirs(os.path.join(HERE, "evidence"), exist_ok=True)
    path = os.path.join(HERE, "evidence", f"{mod.ID}.json")
    tmp = path + ".tmp"
    with open(tmp, "w") as f:
        json.dump(ev, f, indent=1, sort_keys=True, default=repr)
        f.write("\n")
    os.replace(tmp, path)
    return path


def main(argv=None):
    ap = argparse.ArgumentParser()
    ap.add_argument("id")
    ap.add_argument("--tier", default=os.environ.get("VERIF_TIER", "quick"), choices=["quick", "thorough"])
    ap.add_argument("--replay")
    ap.add_argument("--no-evidence", action="store_true", help="do not rewrite the evidence file (mutant runs)")
    args = ap.parse_args(argv)
    seed = int(os.environ.get("VERIF_SEED", "0") or 0)
    _setup_path()
    prop = args.id.upper()
    try:
        mod = importlib.import_module(f"checks.{prop.lower()}")
    except Exception:
        traceback.print_exc()
        print(f"HARNESS-ERROR property={prop} cannot import check", flush=True)
        return 2

    from mc.core import Violation
    from mc.par import HarnessError

    findings = load_findings()

    if args.replay:
        with open(args.replay) as f:
            data = json.load(f)
        viols = mod.replay(data["replay"])
        if viols:
            for v in viols:
                print(f"replay: {v.signature}: {v.message}")
            unlisted = [v for v in viols if not match_finding(findings, prop, v.signature)]
            if unlisted:
                print(f"VIOLATION property={prop} replay={args.replay}")
                return 1
            for v in viols:
                f_ = match_finding(findings, prop, v.signature)
                print(f"KNOWN-FINDING: property={prop} {f_['what']}")
            return 0
        print(f"replay: property {prop} holds on {args.replay}")
        return 0

    t0 = time.time()
    try:
        res = mod.run(args.tier, seed)
    except HarnessError as e:
        print(str(e))
        print(f"HARNESS-ERROR property={prop}", flush=True)
        return 2
    except Exception:
        traceback.print_exc()
        print(f"HARNESS-ERROR property={prop}", flush=True)
        return 2
    wall = time.time() - t0

    rc = 0
    known_reported = []
    unlisted = []
    for sig in sorted(res.violations):
        f_ = match_finding(findings, prop, sig)
        if f_ is not None:
            if f_["what"] not in known_reported:
                known_reported.append(f_["what"])
        else:
            unlisted.append(sig)
    for what in known_reported:
        print(f"KNOWN-FINDING: property={prop} {what}")
    res.extra["_known"] = known_reported

    if os.environ.get("VERIF_VERBOSE"):
        for sig in unlisted:
            print(f"  [class] {sig} :: {res.violations[sig][0].message[:240]!r}")
    os.makedirs(os.path.join(HERE, "replays"), exist_ok=True)
    unreproduced = []
    for n, sig in enumerate(unlisted[:8]):
        v = res.violations[sig][0]
        # determinism gate: the recorded case must fail identically twice without the explorer, each time in a fresh child process (so
        # that state which the code under test keeps per process cannot leak from one replay into the next)
        try:
            r1 = _replay_isolated(prop, v.replay)
            r2 = _replay_isolated(prop, v.replay)
        except Exception:
            traceback.print_exc()
            print(f"HARNESS-ERROR property={prop} replay of {sig} crashed")
            return 2
        if r1 != r2 or sig not in r1:
            unreproduced.append((sig, r1, r2, v.message))
            continue
        path = os.path.join(HERE, "replays", f"{prop}-{n}.json")
        with open(path, "w") as f:
            json.dump({"property": prop, "signature": sig, "message": v.message, "replay": v.replay}, f, indent=1, default=repr)
            f.write("\n")
        print(f"  {sig}: {v.message}")
        print(f"VIOLATION property={prop} replay={path}")
        rc = max(rc, 1)
    for sig, r1, r2, msg in unreproduced:
        if rc == 1:
            # other violations of this run replay identically: this one depends on what the process did before (state kept by the code
            # under test across calls); reported for information, the verdict rests on the reproduced ones
            print(f"  UNREPRODUCED-IN-ISOLATION {sig}: {msg[:300]}")
        else:
            print(f"HARNESS-NONDETERMINISM property={prop} signature={sig} first={r1} second={r2}")
            print(f"  message: {msg}")
    if unreproduced and rc == 0:
        rc = 2
    if len(unlisted) > 8:
        print(f"  (+{len(unlisted) - 8} further violation classes not written out)")

    # vacuity gate
    vac = None
    if res.evaluations == 0:
        vac = "no case was explored"
    elif not res.samples:
        vac = "no sample case was written out"
    elif len(res.nontrivial) < 2:
        vac = "fewer than two distinct non-trivial cases"
    elif getattr(mod, "MIN_OUTCOMES", 2) > len(res.outcomes):
        vac = f"only {len(res.outcomes)} distinct outcome(s) observed: nothing collided"
    if vac and rc == 0:
        print(f"HARNESS-ERROR property={prop} vacuous exploration: {vac}")
        rc = 2

    if not args.no_evidence and not os.environ.get("VERIF_NO_EVIDENCE"):
        write_evidence(mod, args.tier, seed, res, wall, len(unlisted))
    print(
        f"{prop} tier={args.tier} seed={seed} evaluations={res.evaluations} distinct_nontrivial={len(res.nontrivial)} "
        f"outcomes={len(res.outcomes)} states={res.states} transitions={res.transitions} exhaustive={res.exhaustive} "
        f"caps={res.caps_hit} violations={len(unlisted)} known={len(known_reported)} wall={wall:.1f}s"
    )
    return rc


if __name__ == "__main__":
    sys.exit(main())
