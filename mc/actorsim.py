"""A deterministic stand-in for the Thespian transport plus executor threads under a baton scheduler.

Real actor classes are instantiated unchanged; `inst._myRef` is a SimRef.  Semantics modelled (thespian/system/actorManager.py):
FIFO per (sender, receiver) pair; pickling between actors (each Rally actor is its own process); a raising handler is retried
once with a copy, then PoisonMessage to the sender; wakeupAfter = timer message to self; ActorExitRequest = handler, then
recursive exit of children, then ChildActorExited to the parent; dead actors drop their mail.

Executor threads (Worker.pool / TaskExecutionActor.pool) are OS threads holding a baton: exactly one of {explorer, one sim
thread} runs at any time.  A sim thread yields when its virtual event loop has to wait for time.  Inside an actor handler the
operations Sampler.samples / future.done() / future.exception() / future.result() are sync points at which the actor's own
executor thread may be run up to its next yield first (one deviation).

Transitions offered at every scheduling point, in canonical order (choice 0 = default):
  deliver the head of a channel (oldest first) | resume a runnable thread | deliver a due wake-up | advance time
"""
import collections
import copy
import pickle
import sys
import threading
import traceback

import thespian.actors as ta

from mc.vclock import CLOCK


class SimAbort(BaseException):
    """raised inside a parked sim thread when the execution is abandoned"""


class Deadlock(BaseException):
    """an actor blocks on its executor thread which cannot finish (BaseException: must not be eaten by the handler-retry logic)"""


def key(addr):
    return addr.addressDetails


class SimFuture:
    def __init__(self, sim, thread):
        self.sim = sim
        self.thread = thread
        self._done = False
        self._exc = None
        self._result = None

    def _finish(self, result=None, exc=None):
        self._result, self._exc, self._done = result, exc, True

    def done(self):
        self.sim.sync_point(self.thread, "future.done")
        return self._done

    def running(self):
        return not self._done

    def exception(self, timeout=None):
        self.sim.sync_point(self.thread, "future.exception")
        if not self._done:
            raise TimeoutError()
        return self._exc

    def result(self, timeout=None):
        if not self._done:
            self.sim.block_on(self.thread, "future.result")
        if self._exc is not None:
            raise self._exc
        return self._result


class SimThread:
    def __init__(self, sim, owner_key, fn, args, kwargs, name):
        self.sim = sim
        self.owner = owner_key
        self.fn, self.args, self.kwargs = fn, args, kwargs
        self.name = name
        self.go = threading.Semaphore(0)
        self.state = "new"  # new | waiting | running | finished | dead
        self.deadline = None
        self.future = SimFuture(sim, self)
        self.os_thread = None
        self.abort = False
        self.steps = 0

    def runnable(self):
        if self.state == "new":
            return True
        return self.state == "waiting" and self.deadline is not None and self.deadline <= CLOCK.now + 1e-12

    # -- preemption of this thread between the lines of selected functions (ActorSim.thread_line_preempt) ------------------------------
    def _trace_global(self, frame, event, arg):
        if event == "call" and self.sim.thread_line_preempt(frame.f_code):
            return self._trace_local
        return None

    def _trace_local(self, frame, event, arg):
        if event == "line":
            self.yield_now()
        return self._trace_local

    def yield_now(self):
        """hand the baton back in the middle of a step: the thread stays runnable at this instant and is first in the canonical order, so
        continuing it is the default and running anything else first (a message, a due wake-up, a time advance) costs one deviation"""
        self.state = "waiting"
        self.deadline = CLOCK.now
        self.sim.yielded = self
        self.sim.current_thread = None
        self.sim.back.release()
        self.go.acquire()
        if self.abort:
            raise SimAbort()
        self.sim.current_thread = self
        self.state = "running"

    def _body(self):
        self.go.acquire()
        try:
            if self.abort:
                raise SimAbort()
            self.sim.current_thread = self
            if self.sim.thread_line_preempt is not None:
                sys.settrace(self._trace_global)
            try:
                r = self.fn(*self.args, **self.kwargs)
                self.future._finish(result=r)
            except SimAbort:
                raise
            except BaseException as e:  # noqa
                self.future._finish(exc=e)
            self.state = "finished"
        except SimAbort:
            self.state = "dead"
        finally:
            self.sim.current_thread = None
            self.sim.back.release()

    def wait_until(self, deadline):
        """called on this thread by its virtual loop"""
        self.state = "waiting"
        self.deadline = deadline
        self.sim.current_thread = None
        self.sim.back.release()
        self.go.acquire()
        if self.abort:
            raise SimAbort()
        self.sim.current_thread = self
        self.state = "running"
        if CLOCK.now + 1e-12 < deadline:
            raise RuntimeError("sim thread resumed before its deadline")

    def step(self):
        """explorer side: run this thread until its next yield"""
        if self.state == "new":
            self.os_thread = threading.Thread(target=self._body, name=self.name, daemon=True)
            self.state = "running"
            self.os_thread.start()
        else:
            self.state = "running"
        self.steps += 1
        saved = CLOCK.offset
        CLOCK.offset = self.sim.offset_of(self.owner)
        self.go.release()
        self.sim.back.acquire()
        CLOCK.offset = saved


class SimPool:
    def __init__(self, sim, owner_key):
        self.sim = sim
        self.owner = owner_key
        self.threads = []

    def submit(self, fn, *args, **kwargs):
        t = SimThread(self.sim, self.owner, fn, args, kwargs, f"sim-{len(self.sim.threads)}")
        self.threads.append(t)
        self.sim.threads.append(t)
        return t.future

    def shutdown(self, wait=True, **kw):
        if wait:
            for t in self.threads:
                if t.state not in ("finished", "dead"):
                    self.sim.block_on(t, "pool.shutdown")


class SimRef:
    def __init__(self, sim, addr):
        self.sim = sim
        self.address = addr
        self.globalName = None

    def actor_send(self, target, msg):
        self.sim.send(self.address, target, msg)

    def createActor(self, actorClass, targetActorRequirements=None, globalName=None, sourceHash=None):
        return self.sim.create_actor(actorClass, parent=self.address, requirements=targetActorRequirements)

    def wakeupAfter(self, period, payload=None):
        secs = period.total_seconds() if hasattr(period, "total_seconds") else float(period)
        self.sim.add_timer(self.address, secs, ta.WakeupMessage(period, payload))

    def notifyOnSystemRegistrationChanges(self, addr, startHandling=True):
        if startHandling:
            self.sim.ever_registered = True
            self.sim.convention_listeners.add(key(addr))
            # systems that are already members of the convention are announced to a new listener (observed on multiprocTCPBase)
            for name, caps in self.sim.systems.items():
                self.sim._convention_update(key(addr), name, caps, True)
        else:
            self.sim.convention_listeners.discard(key(addr))

    def handleDeadLetters(self, *a, **k):
        pass

    def updateCapability(self, *a, **k):
        pass


class Rec:
    __slots__ = ("inst", "addr", "parent", "process", "alive", "cls", "children", "aborted")

    def __init__(self, inst, addr, parent, process, cls):
        self.aborted = False
        self.inst, self.addr, self.parent, self.process, self.alive, self.cls, self.children = inst, addr, parent, process, True, cls, []


class ActorSim:
    def __init__(self, chooser, horizon=3600.0, max_steps=20000, offsets=None, on_create=None, pickle_messages=True, place=None):
        self.ch = chooser
        self.horizon = horizon
        self.max_steps = max_steps
        self.offsets = offsets or {}
        self.on_create = on_create
        self.place = place
        self.pickle_messages = pickle_messages
        self.actors = {}
        self.channels = collections.OrderedDict()  # (sender key, receiver key) -> deque[(seq, msg)]
        self.timers = []  # (due, seq, receiver key, msg)
        self.threads = []
        self.seq = 0
        self.addr_counter = 0
        self.role_counts = {}
        self.back = threading.Semaphore(0)
        self.current_thread = None
        self.current_actor = None
        self.convention_listeners = set()
        self.external = ta.ActorAddress("external-0")
        self.outbox = []  # (time, msg) received by the external endpoint
        self.trace = []
        self.steps = 0
        self.dead_letters = []
        self.handler_errors = []
        self.phase = "main"
        self.faults = []  # environment transitions supplied by a check: callables(sim) -> bool (enabled?) with .fire(sim)
        self.stopped = False
        self.untimed = False
        self.ignore_timers = False
        self.on_deliver = None
        self.state_fn = None  # canonical state for explicit-state search (see explore.StatefulChooser)
        # optional predicate on code objects: inside matching functions every *line* of an actor handler is a point at which an
        # executor thread of the same actor that is runnable at this instant may be stepped (one deviation each)
        self.line_preempt = None
        # optional predicate on code objects: inside matching functions an executor thread can be preempted before every line
        self.thread_line_preempt = None
        self.yielded = None
        self.duplicate_child_exited = True
        self.unavailable = set()  # processes (hosts) on which no actor can be created any more
        self.ever_registered = False
        self.strict_placement = False  # True: an "ip" requirement must be satisfied by a member system of the convention
        self.systems = {}  # member systems of the convention: name (= process name of the actors placed there) -> capabilities

    # ---------------------------------------------------------------- actors
    def offset_of(self, k):
        rec = self.actors.get(k)
        return self.offsets.get(rec.process, 0.0) if rec else 0.0

    def create_actor(self, cls, parent=None, requirements=None, process=None):
        self.addr_counter += 1
        # names do not depend on the order in which actors for different hosts are created (symmetry reduction for state hashing)
        role = f"{cls.__name__}@{(requirements or {}).get('ip', 'c')}"
        n = self.role_counts[role] = self.role_counts.get(role, 0) + 1
        addr = ta.ActorAddress(f"{role}#{n}")
        if process is None:
            if self.place is not None:
                process = self.place(cls, requirements, parent)
            elif requirements and "ip" in requirements:
                process = requirements["ip"]
            else:
                process = "coordinator"
        if process in self.unavailable or (self.strict_placement and requirements and "ip" in requirements and process not in self.systems):
            # no actor system satisfies the requirements (the daemon has left): as observed on the real multiprocTCPBase the parent gets
            # ChildActorExited for the address and every message sent to it comes back as PoisonMessage ("Child Aborted")
            rec = Rec(None, addr, parent, process, cls)
            rec.alive = False
            rec.aborted = True
            self.actors[key(addr)] = rec
            if parent is not None and key(parent) in self.actors and self.actors[key(parent)].alive:
                self.seq += 1
                self.channels.setdefault(("system", key(parent)), collections.deque()).append((self.seq, ta.ChildActorExited(addr)))
            return addr
        saved = CLOCK.offset
        CLOCK.offset = self.offsets.get(process, 0.0)
        try:
            inst = cls()
        finally:
            CLOCK.offset = saved
        inst._myRef = SimRef(self, addr)
        rec = Rec(inst, addr, parent, process, cls)
        self.actors[key(addr)] = rec
        if parent is not None and key(parent) in self.actors:
            self.actors[key(parent)].children.append(addr)
        if hasattr(inst, "pool"):
            inst.pool = SimPool(self, key(addr))
        if self.on_create:
            self.on_create(self, rec)
        return addr

    def send(self, sender, target, msg):
        self.seq += 1
        tk = key(target)
        if tk == key(self.external):
            self.outbox.append((CLOCK.now, self._transfer(msg)))
            self.trace.append(("to-external", type(msg).__name__))
            return
        sk = key(sender)
        if sk == tk:
            m = msg
        else:
            m = self._transfer(msg)
        self.channels.setdefault((sk, tk), collections.deque()).append((self.seq, m))

    def _transfer(self, msg):
        if not self.pickle_messages:
            return msg
        try:
            return pickle.loads(pickle.dumps(msg))
        except Exception as e:  # noqa
            raise RuntimeError(f"message {type(msg).__name__} cannot cross a process boundary: {e}")

    def add_timer(self, addr, secs, msg):
        self.seq += 1
        self.timers.append((CLOCK.now + max(0.0, secs), self.seq, key(addr), msg))

    def tell(self, target, msg):
        """external endpoint (race control / the system) sends a message"""
        self.send(self.external, target, msg)

    # ---------------------------------------------------------------- convention of actor systems (remote Rally daemons)
    def _convention_update(self, listener_key, name, caps, added):
        self.seq += 1
        self.channels.setdefault(("system", listener_key), collections.deque()).append(
            (self.seq, ta.ActorSystemConventionUpdate(ta.ActorAddress(f"admin-{name}"), dict(caps), added))
        )

    def system_joins(self, name, caps):
        """a remote actor system registers with the convention leader: every registered listener is told"""
        self.systems[name] = dict(caps)
        self.unavailable.discard(name)
        for lk in sorted(self.convention_listeners):
            self._convention_update(lk, name, caps, True)

    def system_leaves(self, name):
        """a member system is shut down.  As observed on the real multiprocTCPBase (tools/conformance_thespian.py): listeners get
        ActorSystemConventionUpdate(remoteAdded=False); every actor hosted there is gone and its parent gets ChildActorExited (no order
        between the two); messages to the dead actors vanish; a later createActor that only this system could satisfy yields an
        aborted child (ChildActorExited to the parent, PoisonMessage for every message sent to it)"""
        caps = self.systems.pop(name, {})
        self.unavailable.add(name)
        for lk in sorted(self.convention_listeners):
            self._convention_update(lk, name, caps, False)
        for k, rec in list(self.actors.items()):
            if rec.alive and rec.process == name:
                self.kill_actor(k)

    # ---------------------------------------------------------------- delivery
    def deliver(self, sender_key, receiver_key, msg):
        if self.on_deliver is not None:
            self.on_deliver(self, receiver_key, msg)
        rec = self.actors.get(receiver_key)
        if rec is not None and rec.aborted:
            if sender_key in self.actors and self.actors[sender_key].alive:
                self.send(rec.addr, self.actors[sender_key].addr, ta.PoisonMessage(msg, "Child Aborted"))
            return
        if rec is None or not rec.alive:
            self.dead_letters.append((receiver_key, type(msg).__name__))
            return
        sender_addr = self.external if sender_key == key(self.external) else (self.actors[sender_key].addr if sender_key in self.actors else ta.ActorAddress(sender_key))
        self.trace.append(("deliver", type(msg).__name__, receiver_key))
        saved = CLOCK.offset
        CLOCK.offset = self.offsets.get(rec.process, 0.0)
        self.current_actor = receiver_key
        traced = False
        if self.line_preempt is not None:
            owned = [t for t in self.threads if t.owner == receiver_key]
            if owned:
                self._owned_threads = owned
                traced = True
                sys.settrace(self._global_trace)
        try:
            try:
                rec.inst.receiveMessage(msg, sender_addr)
            except SimAbort:
                raise
            except (SystemExit, KeyboardInterrupt):
                # Thespian's actor manager only catches Exception around a handler: the actor's process dies (its parent gets ChildActorExited)
                self.handler_errors.append((receiver_key, type(msg).__name__, traceback.format_exc(), CLOCK.now, self.phase))
                self.exit_actor(receiver_key, recursive=True, graceful=False)
            except Exception:
                first = traceback.format_exc()
                try:
                    rec.inst.receiveMessage(copy.deepcopy(msg), sender_addr)
                except SimAbort:
                    raise
                except Exception:
                    self.handler_errors.append((receiver_key, type(msg).__name__, first, CLOCK.now, self.phase))
                    if sender_key != receiver_key:
                        self.send(rec.addr, sender_addr, ta.PoisonMessage(msg, first))
        finally:
            if traced:
                sys.settrace(None)
            self.current_actor = None
            CLOCK.offset = saved
        if isinstance(msg, ta.ActorExitRequest) and rec.alive:
            self.exit_actor(receiver_key, recursive=getattr(msg, "isRecursive", True))

    def exit_actor(self, k, recursive=True, notify=True, graceful=True):
        rec = self.actors.get(k)
        if rec is None or not rec.alive:
            return
        rec.alive = False
        # mail addressed to a dead actor is dropped
        for ck in list(self.channels):
            if ck[1] == k:
                self.channels[ck].clear()
        self.timers = [t for t in self.timers if t[2] != k]
        for child in list(rec.children):
            ckey = key(child)
            crec = self.actors.get(ckey)
            if crec and crec.alive and recursive:
                self.send(rec.addr, child, ta.ActorExitRequest())
        if notify and rec.parent is not None and key(rec.parent) in self.actors and self.actors[key(rec.parent)].alive:
            self.seq += 1
            # a child that exits on request reports it itself; a child whose process / actor system is gone is reported by the reaper:
            # the two kinds do not share a channel (no order between e.g. a convention update and the loss of a child)
            self.channels.setdefault(("system" if graceful else "system-reaper", key(rec.parent)), collections.deque()).append((self.seq, ta.ChildActorExited(rec.addr)))
            if graceful and self.duplicate_child_exited:
                # Thespian's multiproc bases notify the parent twice when a child exits on request (once by the child itself, once when
                # its process is reaped): observed on multiprocTCPBase and multiprocQueueBase, see tools/conformance_thespian.py.
                # The second copy travels on its own channel, so it may arrive at any later point.
                self.seq += 1
                self.channels.setdefault(("system-reaper", key(rec.parent)), collections.deque()).append((self.seq, ta.ChildActorExited(rec.addr)))
        elif notify and rec.parent is not None and key(rec.parent) == key(self.external):
            self.outbox.append((CLOCK.now, ta.ChildActorExited(rec.addr)))

    def kill_actor(self, k):
        """environment fault: the actor's process dies"""
        rec = self.actors.get(k)
        if rec is None or not rec.alive:
            return
        for t in self.threads:
            if t.owner == k and t.state not in ("finished", "dead"):
                t.state = "killed"
        for child in list(rec.children):
            self.kill_actor(key(child))
        self.exit_actor(k, recursive=False, graceful=False)

    # ---------------------------------------------------------------- threads
    def _global_trace(self, frame, event, arg):
        if event == "call" and self.line_preempt(frame.f_code):
            return self._local_trace
        return None

    def _local_trace(self, frame, event, arg):
        # (tracing is per OS thread and suspended while this callback runs, so the stepped executor thread is not traced)
        if event == "line" and self.current_thread is None:
            for t in self._owned_threads:
                self.sync_point(t, f"line:{frame.f_code.co_name}+{frame.f_lineno - frame.f_code.co_firstlineno}")
        return self._local_trace

    def sync_point(self, thread, what):
        """called from an actor handler (explorer side) on an object shared with `thread`"""
        if self.current_thread is not None or thread is None:
            return
        if thread.state in ("finished", "dead", "killed") or not thread.runnable():
            return
        if self.ch.choose(2, "preempt:" + what):
            self.trace.append(("preempt", what))
            thread.step()

    def block_on(self, thread, what):
        """the calling actor handler blocks until the thread has finished: only the thread and the clock can move"""
        guard = 0
        while thread.state not in ("finished", "dead", "killed"):
            guard += 1
            if guard > 100000:
                raise Deadlock(f"{what}: thread does not finish")
            if thread.runnable():
                thread.step()
            elif thread.state == "waiting" and thread.deadline is not None:
                if thread.deadline > max(self.horizon, CLOCK.now) + 600.0:
                    raise Deadlock(f"{what}: thread waits far beyond the horizon ({thread.deadline})")
                CLOCK.advance_to(thread.deadline)
            else:
                raise Deadlock(f"{what}: thread in state {thread.state}")

    # ---------------------------------------------------------------- scheduling
    def enabled(self):
        out = []
        heads = []
        for ck, q in self.channels.items():
            if q:
                heads.append((q[0][0], ck))
        y = self.yielded
        if y is not None and y.state == "waiting" and y.runnable():
            out.append(("thread", y))  # the thread that has just been preempted inside a step goes on by default
        else:
            y = None
        for _seq, ck in sorted(heads):
            out.append(("msg", ck))
        for t in self.threads:
            if t is not y and t.state in ("new", "waiting") and t.runnable():
                out.append(("thread", t))
        if self.untimed:
            # explicit-state mode: a timer may fire at any moment, time itself is not part of the state
            due = [] if self.ignore_timers else sorted(self.timers, key=lambda x: (x[0], x[1]))
        else:
            due = sorted((x for x in self.timers if x[0] <= CLOCK.now + 1e-12), key=lambda x: (x[0], x[1]))
        for x in due:
            out.append(("timer", x))
        nxt = None if self.untimed else self.next_deadline()
        if nxt is not None:
            out.append(("time", nxt))
        for f in self.faults:
            if f.enabled(self):
                out.append(("fault", f))
        return out

    def next_deadline(self):
        ds = [x[0] for x in self.timers if x[0] > CLOCK.now + 1e-12]
        ds += [t.deadline for t in self.threads if t.state == "waiting" and t.deadline is not None and t.deadline > CLOCK.now + 1e-12]
        return min(ds) if ds else None

    def step(self):
        """one scheduling decision; returns False when nothing is enabled"""
        en = self.enabled()
        if not en:
            return False
        if self.state_fn is not None and hasattr(self.ch, "visit") and len(self.ch.choices) >= len(self.ch.prefix):
            self.ch.visit(self.state_fn(self))
        # time advance is the default only when nothing else is enabled; faults are never default
        normal = [e for e in en if e[0] not in ("time", "fault") or (e[0] == "fault" and e[1].mandatory)]
        if normal:
            order = normal + [e for e in en if e[0] == "time"] + [e for e in en if e[0] == "fault" and not e[1].mandatory]
        else:
            order = [e for e in en if e[0] == "time"] + [e for e in en if e[0] == "fault" and not e[1].mandatory]
        if not order:
            return False
        if not normal and not any(e[0] == "time" for e in order):
            # only faults are enabled: the system is quiescent; a fault alone is a deviation, default is to stop
            k = self.ch.choose(len(order) + 1, "quiescent")
            if k == 0:
                return False
            pick = order[k - 1]
        else:
            k = self.ch.choose(len(order), "sched")
            pick = order[k]
        self.steps += 1
        self.yielded = None
        kind = pick[0]
        if kind == "msg":
            ck = pick[1]
            _seq, msg = self.channels[ck].popleft()
            self.deliver(ck[0], ck[1], msg)
        elif kind == "thread":
            self.trace.append(("thread", pick[1].name))
            pick[1].step()
        elif kind == "timer":
            x = pick[1]
            self.timers.remove(x)
            self.deliver(x[2], x[2], x[3])
        elif kind == "time":
            if pick[1] > self.horizon:
                return False
            self.trace.append(("time", pick[1]))
            CLOCK.advance_to(pick[1])
        else:
            self.trace.append(("fault", pick[1].name))
            pick[1].fire(self)
        return True

    def run(self, until=None):
        """run until `until(sim)` is true, nothing is enabled, or the horizon / step limit is reached.  Returns the reason."""
        while True:
            if until is not None and until(self):
                return "done"
            if self.steps >= self.max_steps:
                return "step-limit"
            if CLOCK.now > self.horizon:
                return "horizon"
            nd = self.next_deadline()
            if not self.step():
                if nd is not None and nd > self.horizon:
                    return "horizon"
                return "quiescent"

    def shutdown(self):
        """release every parked thread (SimAbort) so that long-lived explorer processes do not leak threads"""
        for t in self.threads:
            if t.state in ("waiting", "running", "killed") and t.os_thread is not None and t.os_thread.is_alive():
                t.abort = True
                t.go.release()
                self.back.acquire()
        for t in self.threads:
            if t.os_thread is not None:
                # wait until the thread has really unwound: on a heavily loaded machine two seconds were not always enough, and a thread of the
                # previous execution that is still running while the next one starts makes executions depend on wall-clock timing (seen
                # once as a Divergence while replaying a prefix in the thorough tier of C09 under a load average above 30)
                t.os_thread.join(timeout=60.0)
        self.stopped = True


class Fault:
    def __init__(self, name, enabled, fire, once=True, mandatory=False):
        self.mandatory = mandatory  # an environment transition that is bound to happen (not an optional fault)
        self.name = name
        self._enabled = enabled
        self._fire = fire
        self.once = once
        self.fired = False

    def enabled(self, sim):
        return not (self.once and self.fired) and self._enabled(sim)

    def fire(self, sim):
        self.fired = True
        self._fire(sim)
