#!/venv/bin/python
"""tools/seed_matrix.py [seed ids...]  -- applies every seeded change to /repo in turn, runs the quick check of the property it breaks,
reverts, and records the outcome in seeded/<id>/meta.json and seeded/MATRIX.md."""
import json, os, re, subprocess, sys, time

V = "/verif"
# MATRIX_REPO: a scratch git worktree of /repo at the same commit (e.g. /tmp/wt/clean) so that /repo itself stays untouched while a long
# matrix run is in progress; default is /repo itself
R = os.environ.get("MATRIX_REPO", "/repo")
ids = sys.argv[1:] or sorted(d for d in os.listdir(f"{V}/seeded") if os.path.isdir(f"{V}/seeded/{d}"))
notes = json.load(open(f"{V}/seeded/NOTES.json")) if os.path.exists(f"{V}/seeded/NOTES.json") else {}
alt = json.load(open(f"{V}/seeded/ALT_CHECKS.json")) if os.path.exists(f"{V}/seeded/ALT_CHECKS.json") else {}
rows = []
for sid in ids:
    d = f"{V}/seeded/{sid}"
    agent = json.load(open(f"{d}/meta.agent.json")) if os.path.exists(f"{d}/meta.agent.json") else {}
    prop = agent.get("property") or ("C" + sid[1:3])
    assert subprocess.run(["git", "-C", R, "status", "--porcelain", "--untracked-files=no"], capture_output=True, text=True).stdout == "", f"{R} dirty"
    ap = subprocess.run(["git", "-C", R, "apply", f"{d}/patch.diff"], capture_output=True, text=True)
    t0 = time.time()
    used = prop
    if ap.returncode != 0:
        out, rc = "patch does not apply: " + ap.stderr[:200], None
    else:
        try:
            # the check of the property the agent was given first; then, if listed in seeded/ALT_CHECKS.json, the check of another
            # property whose harness reaches the changed behaviour (e.g. thread interleavings are explored by C07, not by C04)
            for cand in [prop] + alt.get(sid, []):
                p = subprocess.run([f"{V}/check", cand, "--tier", "quick", "--no-evidence"], capture_output=True, text=True, cwd=V, timeout=1800,
                                   env=dict(os.environ, VERIF_VERBOSE="1", VERIF_REPO=R))
                out, rc, used = p.stdout, p.returncode, cand
                if rc == 1 and "VIOLATION property=" in out:
                    break
        finally:
            subprocess.run(["git", "-C", R, "checkout", "-q", "--", "."])
            subprocess.run(f"find {R} -name __pycache__ -type d -prune -exec rm -rf {{}} +", shell=True)
    sigs = re.findall(r"^  \[class\] (\S+) ::", out or "", re.M)
    detected = rc == 1 and "VIOLATION property=" in out
    meta = {
        "seed": sid,
        "property": prop,
        "summary": agent.get("summary"),
        "needs": agent.get("needs"),
        "files": agent.get("files"),
        "origin": "written by an independent sub-agent that saw only the property text and a scratch worktree of /repo",
        "confirmed": "tools/verify_seed.sh: repository suite (tools/baseline.py) still passes with the change; demo_test.py fails with it and passes without it",
        "what_i_ran": f"git -C {R} apply seeded/{sid}/patch.diff; " + ("" if R == "/repo" else f"VERIF_REPO={R} ") + f"./check {used} --tier quick --no-evidence; git -C {R} checkout -- ."
        + ("" if R == "/repo" else f"  ({R} = scratch git worktree of /repo at the same commit)"),
        "detected_by_check": bool(detected),
        "detected_by": used if detected else None,
        "exit_code": rc,
        "violation_classes": sigs[:12],
        "wall_s": round(time.time() - t0, 1),
    }
    if sid in notes:
        meta["note"] = notes[sid]
    json.dump(meta, open(f"{d}/meta.json", "w"), indent=1)
    rows.append(meta)
    print(sid, prop, "DETECTED" if detected else f"missed (rc={rc})", sigs[:2], flush=True)
# merge with rows of seeds not re-run
allrows = {}
for sid in sorted(d for d in os.listdir(f"{V}/seeded") if os.path.isdir(f"{V}/seeded/{d}")):
    mp = f"{V}/seeded/{sid}/meta.json"
    if os.path.exists(mp):
        allrows[sid] = json.load(open(mp))
with open(f"{V}/seeded/MATRIX.md", "w") as f:
    f.write("| seed | property | detected by ./check (quick) | first violation class | what the change needs to manifest |\n|---|---|---|---|---|\n")
    for sid, m in allrows.items():
        f.write(f"| {sid} | {m['property']} | {('yes' + (' (by ' + m['detected_by'] + ')' if m.get('detected_by') and m['detected_by'] != m['property'] else '')) if m['detected_by_check'] else 'NO'}{' (' + m['note'] + ')' if m.get('note') else ''} | {(m['violation_classes'] or [''])[0]} | {(m.get('needs') or '')[:160].replace('|', '/')} |\n")
print("detected", sum(1 for m in allrows.values() if m["detected_by_check"]), "of", len(allrows))
