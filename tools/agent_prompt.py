#!/venv/bin/python
"""prints the prompt given to a mutation sub-agent for property <id> working in worktree <dir> (nothing from /verif but the property text)"""
import json, sys
pid, wt = sys.argv[1].upper(), sys.argv[2]
wave = sys.argv[3] if len(sys.argv) > 3 else ""
import glob, os
known = []
for mp in sorted(glob.glob(f"/verif/seeded/{pid.lower()}_*/meta.json")):
    m = json.load(open(mp))
    if m.get("summary"):
        known.append("- " + m["summary"][:300])
p = [json.loads(l) for l in open('/verif/properties.jsonl') if json.loads(l)['id'] == pid][0]
print(f"""You are helping to evaluate a verification tool for the open-source project elastic/rally (Elastic's Python benchmarking framework). Your job is to produce TWO independent, realistic, subtle bugs ("seeded changes") in the rally source code that each BREAK the following semantic property while the project still imports fine and its existing unit-test suite still passes.

PROPERTY ({p['title']}):
{p['statement']}
Quantified over: {p['quantifier']['text']}
Code that is meant to make it hold (starting points for reading): {'; '.join(m.get('name','') + ' @ ' + m.get('where','') for m in p['anchors']['mechanism'])}
Files: {', '.join(p['anchors']['files'])}

WORKSPACE: your own scratch git worktree of the repository is at {wt} (a checkout of the current HEAD). Work ONLY inside {wt}. Never read, write or cd into /repo or /verif (they are off limits; /repo is the pristine tree, you must not touch it). Python to use: /venv/bin/python (3.12; all of rally's dependencies are installed; there is no network). IMPORTANT: always run Python with PYTHONPATH={wt} so that `import esrally` picks up YOUR worktree and not the installed tree, e.g.
  cd {wt} && PYTHONPATH={wt} /venv/bin/python -m pytest -q -p no:cacheprovider --continue-on-collection-errors -n 12 --dist loadfile
(verify once with PYTHONPATH={wt} /venv/bin/python -c "import esrally; print(esrally.__file__)"). On the unmodified tree that command gives exactly: 1268 passed, 1 failed (tests/mechanic/launcher_test.py::TestProcessLauncher::test_daemon_start_stop, fails because we run as root - ignore it) and 3 collection errors (factory_test, git_test, net_test: missing module werkzeug - ignore them). A seeded change is acceptable only if the result with the change applied is IDENTICAL to that (same 1268 passing).

WHAT A GOOD SEEDED CHANGE LOOKS LIKE
- A small edit (typically 1-10 lines) to files under esrally/ (not tests, not docs) that a tired developer could plausibly make in a refactoring or "optimisation": an off-by-one, a wrong comparison, state carried over or cleared at the wrong moment, an early return, a swapped argument, a condition that is too wide/narrow, a cache that is not invalidated, acknowledging before the work is done, etc.
- It must break the PROPERTY above (as a user would observe it), not just some unrelated behaviour.
- It must need something SPECIFIC to manifest: a particular interleaving/ordering of events, a fault at a particular point, a multi-step sequence of operations, an unusual-but-legal input, or two cooperating sites that each look fine alone. Changes that ordinary use or the simplest example would expose at once are NOT wanted. Changes that just raise an exception on every call are NOT wanted.
- The two changes must be independent of each other (different mechanism / different code site), each produced against the clean tree.
{("- These changes are ALREADY KNOWN from an earlier round - produce something DIFFERENT (another code site or another mechanism, ideally in a different function or file among those relevant to the property):" + chr(10) + chr(10).join(known)) if known else ""}

DELIVERABLES - create the directory {wt}/_seed/ and put in it, for each change k in (1,2) (the directory names below are literally {pid.lower()}_{wave}1 and {pid.lower()}_{wave}2):
  {wt}/_seed/{pid.lower()}_{wave}k/patch.diff   - output of `git diff` for the change alone (relative to the clean HEAD; must apply with `git apply` at the repository root)
  {wt}/_seed/{pid.lower()}_{wave}k/demo_test.py - a self-contained pytest file (or plain python script with asserts, exit code != 0 on failure) that FAILS with the change applied and PASSES on the clean tree. It should exercise the real rally code (import esrally...), and show the property violation at the level of observable behaviour. Mocks/fakes for Elasticsearch, clocks, actors etc. are fine.
  {wt}/_seed/{pid.lower()}_{wave}k/meta.json    - {{"property": "{pid}", "summary": "<one sentence: what was changed>", "needs": "<what specific input/interleaving/fault/sequence is needed for it to manifest>", "files": ["..."], "demo_cmd": "<exact command to run the demo>", "suite_result_with_change": "<tail line of the pytest run>"}}
Procedure for each change: (a) read the code; (b) make the edit; (c) run the full suite as above and confirm 1268 passed / 1 failed / 3 errors; if any formerly passing test fails, pick a different change; (d) write the demo and confirm it fails with the change; (e) save `git diff > patch.diff`; (f) `git stash` or `git checkout -- esrally` to get back to the clean tree and confirm the demo passes there; (g) repeat for change 2. Leave the worktree clean (no modifications to tracked files) at the end, with only the untracked _seed/ directory added.

In your final answer, give for each change: the summary, what it needs to manifest, and confirmation of the three facts (suite identical, demo fails with change, demo passes without). Be concise.""")
