#!/venv/bin/python
"""prints a markdown table of what the last run of every check covered (from evidence/<id>.json) -> evidence/SUMMARY.md"""
import glob
import json
import os

V = os.path.dirname(os.path.dirname(os.path.abspath(__file__)))
rows = []
for p in sorted(glob.glob(f"{V}/evidence/C*.json")):
    e = json.load(open(p))
    c = e.get("coverage", {})
    rows.append(
        f"| {e['property_id']} | {e['level']} | {e.get('tier')} | {c.get('evaluations')} | {c.get('distinct_nontrivial')} | {c.get('distinct_outcomes')} | "
        f"{c.get('states')} | {c.get('choice_points') or c.get('transitions')} | {c.get('bound_completed') or '-'} | {'yes' if not c.get('caps_hit') else 'capped: ' + '; '.join(map(str, c['caps_hit']))} | "
        f"{e.get('violations')} | {len(c.get('known_findings_reported') or [])} | {e.get('wall_s')} |"
    )
out = (
    "| id | level | tier | executions / cases | distinct non-trivial | distinct outcomes | states | choice points / transitions | bound completed | space enumerated completely | violations | known findings | wall s |\n"
    "|---|---|---|---|---|---|---|---|---|---|---|---|---|\n" + "\n".join(rows) + "\n"
)
open(f"{V}/evidence/SUMMARY.md", "w").write(out)
print(out)
