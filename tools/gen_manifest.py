#!/venv/bin/python
"""Regenerates /verif/MANIFEST.json from the table below (kept in one place so it stays valid)."""
import json
import os
import sys

HERE = os.path.dirname(os.path.dirname(os.path.abspath(__file__)))

BASELINE_OFF = (
    "cd /repo && env -u ELASTIC_RALLY_VERIF /venv/bin/python -m pytest -ra -q -p no:cacheprovider --timeout=900 "
    "--continue-on-collection-errors --junitxml=/tmp/verif-baseline.junit.xml"
)

# id -> (category, technique, design_ref, text, note)
CHECKS = {
    "C15": (
        "exploration",
        "bounded-exhaustive enumeration of branch sets x versions against a reference of the documented precedence, "
        "on versions.best_match and on a real git repository through RallyRepository.update",
        "DESIGN.md §4 C15",
        "Every subset of a 13-name (thorough: 17-name) branch universe x 13 (19) versions is pushed through the real best_match and "
        "compared with the six documented steps; a complete smaller product of branch sets x tag sets x versions is run on a real local "
        "git repository. Exhaustive within the stated universe, which contains every shape the statement names (minor 0, patch 0, "
        "suffix, other majors, unrelated names).",
        "Trusted: the reference transcription of docs/track.rst (30 lines), git itself; remote repositories are a local origin + clone pair (layers 3 and 4).",
    ),
    "C16": (
        "fault_enumeration",
        "exhaustive enumeration of attempt-outcome words (prefix-pruned DFS) x retry-parameter combinations x two-call histories on the "
        "real runner.Retry under a virtual asyncio clock, against a reference model",
        "DESIGN.md §4 C16",
        "Every word over 10 attempt outcomes up to length 3 (thorough 4-5) x ~290 parameter combinations (each parameter present and "
        "absent, constructor default) is run through the real Retry on a virtual-time event loop, on a fresh instance and after each of "
        "5 earlier calls through the same (shared, registered) instance; number of delegate calls, the pause before each, and the identity "
        "of the final result/exception are compared with a reference. Also: operations documented as retryable are wrapped by Retry, with the documented default for retry-until-success.",
        "Trusted: the reference (40 lines, from docs/track.rst and the statement), the virtual loop (mc/vloop.py). Word length bound stated in evidence.",
    ),
    "C17": (
        "fault_enumeration",
        "exhaustive enumeration of node-level fault words (prefix-pruned DFS, plus all piecewise-constant words around the 10-retry "
        "budget) for every EsClient operation through the real Rally sync client over a scripted node, against a reference model",
        "DESIGN.md §4 C17",
        "For each of the 13 metrics-store operations every word over 13 (bulk: 17) HTTP/transport outcomes up to length 3 (thorough 4), "
        "every word a^i b^j c with 9..11 leading retryable faults, and two-call histories are executed against the real EsClient.guarded "
        "with the real elasticsearch client stack; request count, identical re-sent payloads, pauses within [2^k, 2^k+1), first success "
        "returned, error class and cause named are compared with the reference.",
        "Trusted: the scripted node (60 lines), the reference (30 lines). Client-level transport retries are disabled so one attempt = one request.",
    ),
    "C06": (
        "model_checking",
        "explicit-state exploration of call histories of the real ThroughputCalculator: all streams on a time grid x all ordered "
        "set partitions into batches (arrival orders x cuts) x second-task interleaving; operation counts decoded from base-4 weights",
        "DESIGN.md §4 C06",
        "Every stream of up to 4 (thorough 5) samples on a 6 (8)-point time grid with every warm-up/normal assignment is delivered to a "
        "real ThroughputCalculator in every ordered partition into batches (every arrival order across clients and every cut), alone and "
        "with batches of a second task in between; runner-supplied throughput streams (all positive, zero on alternate samples, all zero) "
        "must be passed through 1:1. Sample i carries 4^i operations so value*elapsed decodes into which samples were "
        "counted and how often: exact for in-order histories, bracketed for out-of-order ones. Exhaustive within the grammar.",
        "Trusted: the oracle (80 lines). Samples share one task start; grid and bounds in the evidence.",
    ),
    "C02": (
        "exploration",
        "bounded-exhaustive enumeration of schedule elements x total client counts and of host layouts x client counts through the real "
        "Allocator / calculate_worker_assignments against reference invariants",
        "DESIGN.md §4 C02",
        "Every element of the grammar (tasks with 1..3 clients; parallels of 1..3 sub-tasks, caps None/1..4, completed-by none/any/each) "
        "is allocated alone and next to a task of 1..6 clients (an element's allocation depends on the rest of the schedule only through "
        "the maximum client count), plus all schedules of length <= 3 over a reduced alphabet; every parallel element with every subset of its sub-tasks (and a second parallel "
        "element) excluded through the real task filter; every list of 1..3 (4) hosts over the core "
        "alphabet x 1..17 (40) clients. Reference: rectangular matrix, shared aligned join points, client indices 0..n-1 exactly once per "
        "task, one progress entry per step, Driver.update_progress_message walks every step, the real Driver.start_benchmark (stub collaborators) "
        "plans as many steps as there are schedule elements and starts every client id exactly once; workers: no loss/duplication, contiguous, "
        "<= cores workers, loads differ by <= 1. Exhaustive within the grammar.",
        "Trusted: reference invariants (sched_common.py, 120 lines). Filter-produced schedules are checked with the same invariants in C11.",
    ),
    "C11": (
        "exploration",
        "bounded-exhaustive enumeration of schedules x include/exclude filter lists through the real TaskFilterTrackProcessor against a "
        "list-comprehension reference, followed by the C02 allocation invariants and the driver's progress walk on the filtered schedule",
        "DESIGN.md §4 C11",
        "Every schedule of <= 2 (thorough 3) elements over 5 leaf prototypes (sequential or parallel, tags as list and as plain string "
        "with substring traps) in the first or a later challenge x every list of 1..2 of 14 name/type/tag filters, include and exclude: "
        "kept tasks are the selected ones, same objects, same order, attributes unchanged, every challenge filtered (the second challenge "
        "holds a task equal to one of the first except for its tags), no empty parallel, allocator invariants and progress walk hold, an "
        "empty result is still runnable; parallel elements with one sub-task and with explicit clients; malformed specs raise SystemSetupError.",
        "Trusted: the reference (15 lines) and sched_common invariants. Every filtered schedule of <= 2 elements is also raced end to end in the simulation (default schedule).",
    ),
    "C20": (
        "exploration",
        "bounded-exhaustive enumeration of pairs of stored race results through the real ComparisonReporter (plain, rich, files) against "
        "a reference table, plus self-comparison and swap relations on every pair",
        "DESIGN.md §4 C20",
        "For 17 metric families every presence pattern x every ordered pair of a 9-value alphabet (zero, negative, sub-threshold and "
        "sub-percent differences), alone and on a full background, and every ordered pair of task lists (<= 2 of 3 tasks, one named like "
        "another's operation) x value pairs x percentile-key subsets: rows present iff the metric is in both, cells = converted values, "
        "diff = contender - baseline with sign/5 places, relative diff, colour by direction, neutral when printing as zero, self-compare "
        "neutral, swap flips, csv/markdown file = console text without colour codes.",
        "Trusted: the reference table (labels, unit factors; 120 lines). Disk-usage-per-field rows are not generated.",
    ),
    "C08": (
        "exploration",
        "bounded-exhaustive enumeration of metric-record multisets through the real in-memory store, GlobalStatsCalculator and "
        "FileRaceStore round trip, against exact-rational reference statistics and a warm-up-removal differential",
        "DESIGN.md §4 C08",
        "Every multiset of <= 5 (thorough 6) (value, sample type) pairs over 6 values, every success-flag count vector, and structured "
        "streams at the percentile-set boundaries (9..10000 samples) for two tasks sharing an operation: percentile set by normal count, "
        "percentile values = linear interpolation (exact rationals), monotone, within [min,max], p100=max, p50=median, mean/min/max of raw "
        "normal values, error rate = failed/all normal, results identical with warm-up records removed, race.json round trip reproduces "
        "as_flat_list and per-task metrics. Cluster-level layer: 30 index-stats / GC / segment / size / ingest metrics (per-shard values "
        "included) present all / none / each alone / all but each x 1..3 values: computed value = documented aggregation, every attribute "
        "identical after the race.json round trip.",
        "Trusted: the reference statistics (40 lines). Only the in-memory store; the Elasticsearch-backed store is out of reach offline.",
    ),
    "C19": (
        "exploration",
        "bounded-exhaustive generation of response texts from a JSON grammar (adversarial strings, key orders, escaping and whitespace "
        "styles) through the real selective parser, bulk accounting, cursor extractors and Query runner, against json.loads",
        "DESIGN.md §4 C19",
        "Bulk responses (0..3 items x status x _shards x error form x 14 adversarial reason strings, consistent and shard-failure-only "
        "errors flags), search/scroll pages (hits.total forms, 0..3 hits, 10 sort arrays, fields after sort), composite aggregations, each "
        "in every rotation/reversal of top-level keys and 4 serialisations; multi-page scripts through the real Query runner "
        "(paginated-search, scroll-search). Extracted values must equal those of a full parse. 4 recorded findings (known_findings.json).",
        "Trusted: json.loads, the generators. Inputs exhibiting a recorded finding's feature cannot reveal a second defect on the same input.",
    ),
    "C18": (
        "model_checking",
        "stateless exploration of the real request-context code on a virtual asyncio loop: all context trees of a grammar x all orders of "
        "simultaneously due callbacks (deviation-bounded), plus the real Composite runner and two concurrent clients over the simulated node",
        "DESIGN.md §4 C18",
        "L0: the aiohttp trace signals of the real client from EsClientFactory.create_async fired in every sequence aiohttp can emit for one "
        "request; L1: ~16k trees of nested contexts (sequential/concurrent children, idle time after the last request, failing requests, "
        "contexts without any request) through the "
        "real RequestContextHolder/Manager; L2: 8 stream structures x 4^3 sub-operation kinds x 3 connection limits through the real "
        "Composite/RequestTiming/raw-request/sleep runners and the real Rally async client; L3: pairs of composites on two clients in one "
        "loop. Every tie between timers due at the same virtual instant is a choice point (bound 1 quick, 2 thorough). Each context must "
        "record exactly the span of the requests below it; each sub-request timing exactly its own request; clients never influence each other.",
        "Trusted: mc/vloop.py (virtual loop), mc/fakees.py (simulated node, 70 lines). Real sockets / aiohttp are replaced by the simulated node.",
    ),
    "C04": (
        "exploration",
        "bounded-exhaustive enumeration of load-generator configurations executed by the real worker stack on a virtual asyncio loop "
        "against a simulated node; samples compared with the node's request log and the real schedule's yielded tuples; callback-order "
        "choice points explored for two-client configurations",
        "DESIGN.md §4 C04",
        "clients x target throughput/interval x service-time words (incl. far slower than the interval) x weight/unit x error patterns "
        "(API error, unsuccessful result, connection timeout; on-error=continue) x client-side overhead x wire requests per invocation, "
        "4 invocations per client through AsyncIoAdapter.run / ScheduleHandle / AsyncExecutor / execute_single / registered runner / Rally "
        "async client: one sample per invocation with its client, task, sample type and issue time; service time = first send..last "
        "receive; processing >= service >= 0 and exact; throttled: not issued before the scheduled time, latency = response - scheduled "
        "time, the scheduled time itself = k * clients * weight / target (independent reference); unthrottled: latency = service time. "
        "Service times include one that ends less than a millisecond before the next slot; a completed-by family runs an unthrottled "
        "completing task next to a throttled sibling on the same worker; a user-defined non-simple scheduler without target-throughput.",
        "Trusted: mc/vloop.py, mc/fakees.py, mc/loadgen.py (harness, 200 lines). Thread interleavings of the sample queue are explored in C07. Exact equalities use binary-fraction times.",
    ),
    "C05": (
        "exploration",
        "bounded-exhaustive enumeration of loop-control / scheduler / throughput / ramp-up / service-time parameters executed by the real "
        "worker stack on a virtual asyncio loop; yielded schedule tuples and samples compared with the task specification",
        "DESIGN.md §4 C05",
        "Iteration-based (warm-up x measurement iterations), time-based (warm-up x time period, ramp-up), source-bounded and "
        "self-completing-runner tasks x clients {1,2,4} x {unthrottled, deterministic, seeded poisson} x targets (ops/s, docs/s, interval, "
        "unit mismatch) x 4 service-time words: exact request counts and warm-up flags, period end (one straddler per client), progress "
        "monotone in [0,1] ending at 1, sample types never regress, scheduled times monotone and weight*C/T apart, ramp-up delay; explicit "
        "iterations on finite parameter sources below/at/above the iteration count; a warm-up period without a time period; fractional "
        "string targets; ramp-up inside parallel elements whose allocations come from the real Allocator.",
        "Trusted: as C04. Poisson pacing compared with the same seeded source (single client) or for monotonicity.",
    ),
    "C01": (
        "model_checking",
        "stateless deviation-bounded exploration (CHESS-style iterative bounding) of complete simulated races: real actors, driver, "
        "allocator, workers, executors and client on a simulated Thespian transport, virtual clock and baton-scheduled executor threads",
        "DESIGN.md §4 C01",
        "12 schedule shapes (sequential, parallel, completed-by task/any, over-committed incl. three unequal rows on one worker, time-based, "
        "idle clients, completing task on a shared worker, two consecutive completed-by steps, a completed-by task with two clients) x 4 host/core layouts x service-time profiles x clock offsets; every order of message deliveries (FIFO per pair), "
        "due wake-ups, executor-thread steps, time advances (message delays) and handler preemptions within 1 deviation of the default "
        "schedule (2 on completed-by shapes; thorough: 2 everywhere it matters). Oracle on the request log and race-control messages only: "
        "no request of element k+1 before every request of element k completed; exact per-client request counts; exactly one completion "
        "after the last response, one TaskFinished per step, no failure; completed-by ends siblings only after the named task; liveness.",
        "Trusted: mc/actorsim.py (transport semantics, 400 lines; real Thespian traces are checked to be behaviours of it, DESIGN.md §10.8), "
        "mc/vloop.py, mc/fakees.py, mc/racesim.py (stubs for config/track loading). At bound 2 every line of a worker handler is a preemption "
        "point for a due executor step (§10.9). 1 recorded finding (co-located siblings of a multi-client completed-by task).",
    ),
    "C07": (
        "model_checking",
        "stateless deviation-bounded exploration of complete simulated races including sample shipment, periodic and step-boundary "
        "post-processing and metric hand-over; handler/executor-thread preemption at sync points; final store compared with the request log",
        "DESIGN.md §4 C07",
        "8 schedule shapes (sequential, parallel, several rows per step on one worker, tasks ending exactly on a worker wake-up, 8 s requests "
        "across the 30 s periodic post-processing, composite with named sub-requests, last task of the race ending on a wake-up, completed-by "
        "with a sibling request in flight) x layouts x downsampling {1,2} x sample queue {default,2}; "
        "all schedules within 1 deviation (2 on the stacked-rows and end-of-race shapes, incl. preemption of the wake-up handler by the executor thread). "
        "Oracle: per (task, client) exactly one latency / service_time / processing_time record per logged request with the right labels and "
        "service-time values, one service_time record per dependent sub-request under its own operation, nothing extra; fewer only with "
        "downsampling or a full queue; throughput present, identical with and without downsampling, and every stored value equal to a "
        "one-batch reference of all samples (S15: 40 s of short requests across the periodic tick). The executor thread can be preempted "
        "between the lines of Sampler.add (bound 1 on the tie shapes). A separate layer enumerates put / flush sequences on the "
        "Elasticsearch-backed store's buffer.",
        "Trusted: as C01, plus the emulation of BenchmarkCoordinator's bulk_add hand-over by the environment.",
    ),
    "C09": (
        "model_checking",
        "fault injection x stateless deviation-bounded schedule exploration of complete simulated races; environment faults (worker death, "
        "user cancellation) are transitions available at every scheduling point; race control = the real BenchmarkCoordinator with emulated "
        "actor handlers, and in a second set of specs the real BenchmarkActor + MechanicActor(external) with racecontrol.race() as environment",
        "DESIGN.md §4 C09",
        "5 schedule shapes/layouts (incl. a task long enough for the 30 s periodic post-processing) x faults {API error, unsuccessful result (on-error=abort), connection error (continue), parameter source "
        "raises, runner raises: at first/middle/last request; driver metrics store raises on the n-th write; track-preparation task raises; "
        "worker process dies / user cancels at every scheduling point; store failures also while the race lingers in late tear-down} x all "
        "schedules within 1 deviation (thorough: 2 on a subset, capped per subtree). Oracle: race "
        "control's first terminal message is BenchmarkFailure (cancel: cancelled), never completion, within 40 virtual seconds of the fault; "
        "no results computed, stored in race.json or printed; shutdown terminates every executor thread without deadlock. Faults are recorded at "
        "the moment they fire, so a race that completes although a fault fired is a violation. With the real race control actor the outcome "
        "is the first answer to racecontrol.race(); its own store failing at the n-th hand-over is a further fault kind.",
        "Trusted: as C01, plus the 40-line emulation of BenchmarkActor's handlers around the real coordinator. A worker that dies after "
        "having finished all its work is not counted as a fault during the race.",
    ),
    "C12": (
        "model_checking",
        "explicit-state search (canonical state hashing, replay from the initial state, no deviation bound) over the real MechanicActor, "
        "Dispatcher, NodeMechanicActor and Mechanic helper on the simulated transport, with recording stub supplier/provisioner/launcher",
        "DESIGN.md §4 C12",
        "8 target-host lists (local, remote, several nodes per host, mixed, the same host repeated non-adjacently) x {no fault, launcher fails on each host, provisioning fails for the last node of a multi-node host, stopping fails on a host, a member daemon is shut "
        "down at any time before its nodes have started (semantics validated against the real Thespian: listeners get the convention "
        "update, its actors die, parents get ChildActorExited, later creations abort)} x {a non-target daemon, a daemon without ip capability joins} x preserve-install, plus external clusters: ALL reachable "
        "states under every order of message deliveries (FIFO per pair), daemon joins (before or after the Dispatcher registers) and (thorough) periodic flush timers. Invariants: "
        "EngineStarted only after every node group started, once, with every target node assigned to exactly one host; EngineStopped only after all started groups stopped; per group exactly one "
        "stop -> final flush -> store close -> cleanup(preserve flag); every terminal state after a fault has a BenchmarkFailure at race "
        "control, without fault EngineStarted and EngineStopped (no hang); external clusters never touched.",
        "Trusted: mc/actorsim.py (untimed mode), the canonical state function (argument in ASSUMPTIONS), stubs for team loading and node launch.",
    ),
    "C03": (
        "exploration",
        "bounded-exhaustive enumeration of corpora x clients x worker splits x bulk/batch sizes x percentages x conflict modes through the "
        "real bulk parameter source and readers on real files (incl. offset tables), against the files read line by line; plus exhaustive "
        "arithmetic layers for bounds() tiling and the percentage cut up to 10^12 documents",
        "DESIGN.md §4 C03",
        "12 corpus layouts (1-2 corpora x 1-2 files, with/without action-and-meta-data lines, 1- to 4-byte UTF-8) x 1..5 clients x the worker "
        "groups the real calculate_worker_assignments produces for 4 layouts x bulk {1,2,3,5,1000} x batch {1x,2x,3x} x percentage "
        "{100,75,50,34,1}, conflict modes {sequential, random} x {index, update}; files of 50001..120007 lines read through offset tables; layer E drives the same corpora end to end through the real load "
        "generator and bulk runner against the simulated node (what arrives at the cluster is compared). "
        "Oracle: union of all bulks = every document exactly once, contiguous slices in file order per client group, bulk-size field = docs "
        "in body <= configured, action/meta line paired with its document, update bodies wrap the doc, percentage run = prefix of exactly "
        "ceil(p%) bulks, conflicting ids previously emitted by the same reader.",
        "Trusted: the reference reader (plain file read). 10^12-document files only at the arithmetic layers.",
    ),
    "C10": (
        "exploration",
        "bounded-exhaustive generation of track models from a grammar, each written in three spellings (plain JSON, Jinja parameters, "
        "rally.collect parts incl. nested) and read by the real TrackFileReader, against an independent reference; single-rule violations "
        "must be rejected",
        "DESIGN.md §4 C10",
        "~1000 (thorough ~3500) single-task models over every combination of loop keys, clients, throughput forms, tag forms, name, "
        "schedule, meta and operation forms; parallel elements (defaults x clients x completed-by x child overrides); challenge forms and "
        "selection; corpora/document-set variants with indices xor data streams; index bodies and index/component/composable templates "
        "that use track parameters (rendered content compared); 28 single-rule violations on 4 base models (duplicate names, "
        "default challenges, mixing iterations/time periods, ramp-up rules, completed-by, schema violations, versions, unused/reserved "
        "parameters). Every public attribute of the loaded Track/Challenge/Task/Parallel/Operation/DocumentCorpus/Documents must equal the "
        "reference; invalid tracks must raise a Rally error.",
        "Trusted: the reference expect(model) (90 lines). Track plugins are not generated.",
    ),
    "C13": (
        "exploration",
        "bounded-exhaustive generation of team directories, car lists and car parameters through the real team.load_car, the real "
        "BareProvisioner/ElasticsearchInstaller on a stub distribution archive and the real cleanup, against a dict-merge reference and a "
        "regex template renderer",
        "DESIGN.md §4 C13",
        "3 config-base variable variants x every ordered selection of 1..3 of 7 cars/mixins (two of which name a config base twice; one base "
        "has the same file name at two directory levels) x every subset of 4 car parameters "
        "x data-path modes x preserve: config bases in order without duplicates, variables = config-base < car (list order) < car parameters, "
        "Rally's node variables not overridable in rendered files, every template file rendered to the same relative path (appended across "
        "bases, binary copied verbatim, pre-bundled config removed), cleanup removes the installation and exactly its data paths unless "
        "preserve (then nothing); compositions without a config base and unknown cars are rejected. Every car also goes through the real "
        "DockerProvisioner (same templates, Rally's container-side variables win).",
        "Trusted: the reference merge (20 lines) and renderer (10 lines). Plugins and bootstrap hooks are not generated.",
    ),
    "C14": (
        "fault_enumeration",
        "exhaustive enumeration of initial on-disk states x download-outcome words over a scripted HTTP endpoint, and of every crash point "
        "(each write, torn writes, rename/replace, remove) of a first run followed by a second run on the snapshot, on the real corpus "
        "preparation code and real files",
        "DESIGN.md §4 C14",
        "L1: document {absent, correct, truncated, too long} x archive {absent, correct, truncated, corrupt} x {plain, bz2, gz, zst, zip} x "
        "sizes declared/undeclared x offline x base-url x all download words of length <= 2 (3) over 7 outcomes plus the 10-retry boundary; "
        "L2: every I/O step of a first run as a kill point (3 torn offsets per write), second run on the snapshot; L3: offset-table states and "
        "table-build crash points on a 100,001-line file; L4: bundled corpus sets; L5: external decompressor tools with every scripted exit "
        "status / partial output; second runs after a failed first run; L6: a whole challenge over three corpora through "
        "DefaultTrackPreparator (tasks collected first, as the driver does, or run one at a time). Oracle: if preparation returns, the document has the declared size and the published "
        "content and skip_lines agrees with naive skipping at probe lines; otherwise an exception; the download target never holds a partial "
        "file; the loop terminates; healthy states/environments must succeed. 3 recorded findings.",
        "Trusted: the scripted endpoint (50 lines), the file-system step hooks (80 lines). Process-kill crash model.",
    ),
}

NOT_YET = {}

# layers added in the sixth round of seeded changes (DESIGN.md 10.6, wave f); appended to the level text
ADDENDA = {
    "C01": "Also shape S4x2 (two completed-by-any elements in a row) and S18 (a completed-by-any element in which one worker has no task).",
    "C02": "Also: every column of the real allocation matrix of 11 schedules through the real AsyncIoAdapter.run of one worker (client indices as seen "
    "on the wire), and Driver.start_benchmark under two host layouts (the row handed for client c is row c).",
    "C03": "Layer E also with the bulk task inside a parallel element beside another task (allocations from the real Allocator). Layer E also with a twin bulk task on the same operation.",
    "C04": "Also a per-client set-up cost before the executors start (the issue time is the wall clock at issue).",
    "C05": "Also runners reporting several ops per request against ops/s targets, requests the runner reports as unsuccessful, warm-up-only tasks on a finite partition, "
    "and the progress the driver displays under every arrival history of the clients' samples. Requests of varying weight within a task; time-period 0 after a warm-up period; per-configuration horizon.",
    "C06": "Variants: clients of odd samples start 0.1 s later (batches in ascending / descending sample order); failed requests with 0 operations; a second task of the other kind in the same batch. A second task's sample between the task's own samples; failed requests carry the unit 'ops'.",
    "C07": "Also --test-mode races (no waiting period between steps) at bound 1 and a 40000-request task whose samples are all queued at the worker's final drains.",
    "C08": "Differential: records stored task by task vs. interleaved. Race structures: all 2^8 combinations of optional parts of a race (auto-generated challenge, tags, parameters, car list, revisions, cluster "
    "details) stored by FileRaceStore, found by id, listed and read back. Results without any reported task; races whose ids extend each other in one races directory.",
    "C09": "Also with driver profiling enabled (real AsyncProfiler, yappi replaced by a stand-in) and several clients per worker. Fault kinds: sys.exit in a track plugin, driver metrics store failing on close, metrics store down for good.",
    "C10": "Also the rally.collect macro imported with / without context x user parameter supplied or not, parameters with & < > ', nested collects from different directories. Integer properties given as floats with a zero fraction; default-challenge rules while a challenge is selected.",
    "C11": "Operation types of the alphabet contain each other (search / scroll-search).",
    "C12": "Launcher layer: the real ProcessLauncher.stop for 1..3 nodes per host x 5 process fates per node x metrics store present/absent. External clusters given as URLs / with credentials / with a URL prefix.",
    "C13": "A second node on the host is provisioned from the same composed car object; the car must be unchanged afterwards. Car lists with repeated names. Empty-valued overrides; data paths that were never created.",
    "C14": "L7: a declared uncompressed size that the intact archive does not decompress to; every run has an I/O-step horizon (non-termination is a violation). "
    "L8: --track-path mode, a corpus of three document sets in every placement. L9: corpora published in s3:// and gs:// buckets (net.download_from_bucket over stand-in SDK modules): "
    "bucket answers x formats x sizes x on-disk states, every crash point of a chunked download. L2 also starts from truncated / too long documents and truncated archives.",
    "C15": "Layer 4 (histories): a local repository reused for two runs, and a managed clone reused while upstream changes its branch set between the runs. Histories whose second run is for an unknown version.",
    "C16": "Outcome alphabet includes dict results without a success flag and None.",
    "C17": "Outcomes also: a connection aborted by the peer (error carrying its cause; a separate layer with one transport retry of the client), bulk responses rejecting a varying number of documents.",
    "C18": "L0 fires the trace callbacks of the real client with aiohttp's own parameter objects (three exception kinds). L4: consecutive composite invocations of one client through the real AsyncExecutor.",
    "C19": "The detailed bulk path is judged separately from the fast path; keys that merely end in 'sort' after the last hit's sort. Bulk responses of 40 and 1500 items; two composite-aggregation operations concurrently on one Query instance.",
    "C20": "The report-file layer goes through the public ComparisonReporter.report().",
}


def main():
    props = [json.loads(l) for l in open(os.path.join(HERE, "properties.jsonl"))]
    checks = []
    na = []
    for p in props:
        pid = p["id"]
        if pid in CHECKS and os.path.exists(os.path.join(HERE, "checks", pid.lower() + ".py")):
            cat, tech, ref, text, note = CHECKS[pid]
            if pid in ADDENDA:
                text = text + " " + ADDENDA[pid]
            checks.append(
                {
                    "property_id": pid,
                    "quick_cmd": f"./check {pid} --tier quick",
                    "thorough_cmd": f"./check {pid} --tier thorough",
                    "evidence_file": f"/verif/evidence/{pid}.json",
                    "replay_cmd_template": f"./check {pid} --replay {{path}}",
                    "engine": "mc",
                    "level_claimed": {"category": cat, "text": text, "design_ref": ref},
                    "level_note": note,
                    "technique": tech,
                }
            )
        else:
            na.append({"property_id": pid, "reason": NOT_YET.get(pid, "check not built yet (see DESIGN.md §9 build order); not claimed until it is")})
    m = {
        "version": 1,
        "setup_cmd": "/venv/bin/python -m mc.selftest",
        "hooks": {
            "guard": "ELASTIC_RALLY_VERIF",
            "enable": "no guarded hook exists: every seam is a harness-side monkeypatch applied by the check process; "
            "./check exports ELASTIC_RALLY_VERIF=1 for uniformity only",
            "baseline_off_cmd": BASELINE_OFF,
            "source_commits": [],
            "add_only": True,
        },
        "engines": [
            {
                "name": "mc",
                "path": "/verif/mc",
                "serves_properties": [c["property_id"] for c in checks],
                "kind_free_text": "hand-written explicit-state / deviation-bounded stateless explorer that drives the real Python "
                "code of /repo (virtual clock, virtual asyncio loop, simulated Thespian transport, fault and crash injection, "
                "bounded grammars with reference models)",
            }
        ],
        "checks": checks,
        "not_applicable": na,
        "notes": "Checks import esrally from /repo's working tree (VERIF_REPO overrides). known_findings.json lists recorded "
        "findings and fixed defects; seeded/ holds confirmed property-breaking changes used to test detection.",
    }
    with open(os.path.join(HERE, "MANIFEST.json"), "w") as f:
        json.dump(m, f, indent=1)
        f.write("\n")
    print(f"MANIFEST.json: {len(checks)} checks, {len(na)} not claimed")


if __name__ == "__main__":
    sys.exit(main())
