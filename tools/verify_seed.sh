#!/bin/bash
# tools/verify_seed.sh <worktree> <seed_dir_in_worktree> <seed_id>
# confirms an agent-made seeded change: (1) suite still passes with it, (2) demo fails with it, (3) demo passes without it;
# then stores it under /verif/seeded/<seed_id>/
set -u
WT=$1; SD=$2; SID=$3
cd "$WT" || exit 2
git checkout -q -- . ; git status --short | grep -v '^??' && { echo "worktree not clean"; exit 2; }
DEMO=$(ls "$SD"/demo_test.py "$SD"/demo*.py 2>/dev/null | head -1)
run_demo() { (cd "$WT" && PYTHONPATH="$WT" PYTHONDONTWRITEBYTECODE=1 timeout 600 /venv/bin/python -m pytest -q -p no:cacheprovider -x "$DEMO" >/dev/shm/demo_$SID.log 2>&1); }
run_demo; CLEAN_RC=$?
git apply "$SD/patch.diff" || { echo "patch does not apply"; exit 2; }
run_demo; MUT_RC=$?
/verif/tools/baseline.py "$WT" > /dev/shm/base_$SID.log 2>&1; BASE_RC=$?
if [ $BASE_RC -ne 0 ]; then cat /dev/shm/base_$SID.log; echo "(baseline retry)"; /verif/tools/baseline.py "$WT" > /dev/shm/base_$SID.log 2>&1; BASE_RC=$?; fi
git checkout -q -- .
echo "seed=$SID demo_clean_rc=$CLEAN_RC demo_mutant_rc=$MUT_RC baseline_with_change_rc=$BASE_RC"
tail -1 /dev/shm/base_$SID.log
if [ $CLEAN_RC -eq 0 ] && [ $MUT_RC -ne 0 ] && [ $BASE_RC -eq 0 ]; then
  mkdir -p /verif/seeded/$SID
  cp "$SD/patch.diff" /verif/seeded/$SID/patch.diff
  cp "$DEMO" /verif/seeded/$SID/demo_test.py
  cp "$SD/meta.json" /verif/seeded/$SID/meta.agent.json
  echo "CONFIRMED $SID"
else
  echo "REJECTED $SID"; tail -5 /dev/shm/demo_$SID.log
fi
rm -f /dev/shm/demo_$SID.log /dev/shm/base_$SID.log
find "$WT" -name __pycache__ -type d -prune -exec rm -rf {} + 2>/dev/null
