#!/venv/bin/python
"""Conformance of the virtual event loop (mc/vloop.py) with the real asyncio event loop.

  tools/conformance_asyncio.py record [n]   run conformance/aioprog.py n times on the real loop (60 ms per unit) and store the distinct
                                            event logs in conformance/asyncio_traces.json
  tools/conformance_asyncio.py check        every recorded real log must be the log of some schedule of the virtual loop (choice points:
                                            timers due at the same instant); part of the engines' self-test
"""
import asyncio
import json
import os
import sys
import time

HERE = os.path.dirname(os.path.dirname(os.path.abspath(__file__)))
sys.path.insert(0, HERE)
sys.path.insert(0, os.path.join(HERE, "conformance"))
TRACES = os.path.join(HERE, "conformance", "asyncio_traces.json")


def run_real():
    import aioprog

    log = []
    main = aioprog.build(log, 0.06, time.perf_counter)
    result = asyncio.run(main())
    return json.loads(json.dumps({"order": [l for l, _t in log], "result": result, "times_in_units": [t for _l, t in log]}))


def run_virtual(chooser):
    from mc import vloop
    from mc.vclock import CLOCK

    import aioprog

    CLOCK.start(now=0.0)
    try:
        log = []
        main = aioprog.build(log, 1.0, lambda: CLOCK.now)
        result, loop = vloop.run(main(), chooser=chooser)
        if loop.errors:
            raise RuntimeError(f"virtual loop errors: {loop.errors[:2]}")
        return json.loads(json.dumps({"order": [l for l, _t in log], "result": result, "times_in_units": [t for _l, t in log]}))
    finally:
        CLOCK.stop()


def check(verbose=True):
    from mc import explore, vclock

    vclock.install()
    ok = True
    for i, entry in enumerate(json.load(open(TRACES))["traces"]):
        want = entry["trace"]
        stack, n, found, outcomes = [()], 0, None, set()
        while stack and n < 5000 and found is None:
            prefix = stack.pop()
            ch = explore.Chooser(prefix)
            n += 1
            got = run_virtual(ch)
            outcomes.add(json.dumps(got))
            if got["order"] == want["order"] and got["result"] == want["result"]:
                found = list(ch.choices)
                break
            for k in range(len(prefix), len(ch.choices)):
                for alt in range(1, ch.points[k][0]):
                    stack.append(tuple(ch.choices[:k]) + (alt,))
        if found is None:
            ok = False
            print(f"conformance: real asyncio log #{i} is NOT a behaviour of the virtual loop ({n} schedules, {len(outcomes)} distinct logs)")
            print(json.dumps(want))
        elif verbose:
            print(f"conformance: real asyncio log #{i} (seen {entry['count']}x) reproduced by the virtual loop after {n} schedule(s)")
    return ok


def record(n):
    seen = {}
    for _ in range(n):
        t = run_real()
        k = json.dumps([t["order"], t["result"]])
        e = seen.setdefault(k, {"trace": t, "count": 0})
        e["count"] += 1
    json.dump({"python": sys.version.split()[0], "program": "conformance/aioprog.py", "traces": list(seen.values())}, open(TRACES, "w"), indent=1)
    print(f"{len(seen)} distinct real logs recorded in {TRACES}")


def selftest():
    if os.path.exists(TRACES) and not check(verbose=False):
        raise SystemExit("conformance of the virtual loop with recorded asyncio logs FAILED")


if __name__ == "__main__":
    if len(sys.argv) > 1 and sys.argv[1] == "record":
        record(int(sys.argv[2]) if len(sys.argv) > 2 else 5)
    else:
        sys.exit(0 if check() else 1)
