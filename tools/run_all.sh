#!/bin/bash
# tools/run_all.sh [tier] [seed]  -- every claimed check once, evidence validated against the schema
TIER=${1:-quick}; export VERIF_SEED=${2:-0}
cd /verif
rc=0
for id in $(/venv/bin/python -c "import json; print(' '.join(c['property_id'] for c in json.load(open('MANIFEST.json'))['checks']))"); do
  start=$(date +%s)
  out=$(./check $id --tier $TIER 2>&1); r=$?
  echo "$out" | grep -E "VIOLATION|HARNESS|KNOWN-FINDING" | cut -c1-160
  echo "$out" | tail -1 | cut -c1-200
  echo "   -> $id rc=$r $(( $(date +%s) - start ))s"
  [ $r -ne 0 ] && rc=1
done
python3-vt - <<'PY' || rc=1
import json, jsonschema, glob, sys
schema=json.load(open('/root/.vp/EVIDENCE.schema.json'))
m=json.load(open('/verif/MANIFEST.json'))
jsonschema.validate(m, json.load(open('/root/.vp/MANIFEST.schema.json')))
bad=0
for c in m['checks']:
    try:
        e=json.load(open(c['evidence_file'])); jsonschema.validate(e, schema)
        assert e['level']==c['level_claimed']['category'], (e['level'], c['level_claimed']['category'])
    except Exception as ex:
        bad+=1; print("EVIDENCE INVALID", c['property_id'], str(ex)[:200])
print("evidence files valid" if not bad else f"{bad} invalid evidence files")
sys.exit(1 if bad else 0)
PY
exit $rc
