#!/venv/bin/python
"""tools/cross_matrix.py [seed ids...]  -- robustness run: every seeded change against the quick checks of the OTHER (cheap) properties.
A check may report a violation there (the change breaks a neighbouring property as well) or stay silent, but it must never end with a
harness error (exit code 2): a mutated tree must not make the checking machinery itself fail.  Writes seeded/CROSS.json."""
import json, os, subprocess, sys, time

V = "/verif"
R = os.environ.get("MATRIX_REPO", "/tmp/wt/cross")
CHEAP = ["C02", "C03", "C04", "C05", "C06", "C08", "C10", "C11", "C13", "C14", "C15", "C16", "C18", "C19", "C20"]
ids = sys.argv[1:] or sorted(d for d in os.listdir(f"{V}/seeded") if os.path.isdir(f"{V}/seeded/{d}"))
out_path = f"{V}/seeded/CROSS.json"
data = json.load(open(out_path)) if os.path.exists(out_path) else {}
for sid in ids:
    d = f"{V}/seeded/{sid}"
    own = "C" + sid[1:3]
    assert subprocess.run(["git", "-C", R, "status", "--porcelain", "--untracked-files=no"], capture_output=True, text=True).stdout == "", f"{R} dirty"
    ap = subprocess.run(["git", "-C", R, "apply", f"{d}/patch.diff"], capture_output=True, text=True)
    if ap.returncode != 0:
        data[sid] = {"error": "patch does not apply"}
        continue
    row = {}
    try:
        for c in CHEAP:
            if c == own:
                continue
            t0 = time.time()
            try:
                p = subprocess.run([f"{V}/check", c, "--tier", "quick", "--no-evidence"], capture_output=True, text=True, cwd=V, timeout=900,
                                   env=dict(os.environ, VERIF_REPO=R))
                rc, tail = p.returncode, [l for l in p.stdout.splitlines() if l.startswith("HARNESS")][:2]
            except subprocess.TimeoutExpired:
                rc, tail = "timeout", []
            if rc != 0:
                row[c] = {"rc": rc, "harness": tail, "wall": round(time.time() - t0, 1)}
    finally:
        subprocess.run(["git", "-C", R, "checkout", "-q", "--", "."])
        subprocess.run(f"find {R} -name __pycache__ -type d -prune -exec rm -rf {{}} +", shell=True)
        subprocess.run(f"rm -f {V}/replays/C*-*.json", shell=True)
    data[sid] = row
    json.dump(data, open(out_path, "w"), indent=1, sort_keys=True)
    print(sid, {c: r["rc"] for c, r in row.items()}, flush=True)
bad = {s: {c: r for c, r in row.items() if r.get("rc") not in (0, 1)} for s, row in data.items() if isinstance(row, dict) and "error" not in row}
bad = {s: r for s, r in bad.items() if r}
print("harness errors / timeouts:", json.dumps(bad, indent=1)[:3000])
