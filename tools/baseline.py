#!/venv/bin/python
"""tools/baseline.py [repo_dir]  -- runs the repository's pinned test suite on repo_dir (default /repo) with the
guard variable unset and compares with /root/.vp/BASELINE.json's stable_pass list.  exit 0 iff every stable test passes."""
import json
import os
import subprocess
import sys
import tempfile
import xml.etree.ElementTree as ET

repo = os.path.abspath(sys.argv[1]) if len(sys.argv) > 1 else "/repo"
base = json.load(open("/root/.vp/BASELINE.json"))
fd, junit = tempfile.mkstemp(suffix=".xml", dir="/dev/shm")
os.close(fd)
env = dict(os.environ)
env.pop("ELASTIC_RALLY_VERIF", None)
env["PYTHONPATH"] = repo
env["PYTHONDONTWRITEBYTECODE"] = "1"
cmd = ["/venv/bin/python", "-m", "pytest", "-q", "-p", "no:cacheprovider", "--timeout=900", "--continue-on-collection-errors",
       "-n", os.environ.get("BASELINE_PROCS", "12"), "--dist", "loadfile", f"--junitxml={junit}"] + sys.argv[2:]
p = subprocess.run(cmd, cwd=repo, env=env, capture_output=True, text=True)
passed = set()
for tc in ET.parse(junit).getroot().iter("testcase"):
    if not any(ch.tag in ("failure", "error", "skipped") for ch in tc):
        passed.add(f"{tc.get('classname')}::{tc.get('name')}")
os.remove(junit)
missing = [t for t in base["stable_pass"] if t not in passed]
print(f"baseline on {repo}: {len(passed)} passed, stable_pass={len(base['stable_pass'])}, missing={len(missing)}")
for t in missing[:20]:
    print("  NOT PASSING:", t)
sys.exit(1 if missing else 0)
