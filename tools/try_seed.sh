#!/bin/bash
# tools/try_seed.sh <seed_id> <CHECK_ID> [tier]  -- applies seeded/<seed_id>/patch.diff to a tree (TRY_REPO, default /repo), runs the check
# against that tree, reverts.
SID=$1; CID=$2; TIER=${3:-quick}
R=${TRY_REPO:-/repo}
cd $R || exit 2
if [ -n "$(git status --porcelain --untracked-files=no)" ]; then echo "$R not clean"; exit 2; fi
git apply /verif/seeded/$SID/patch.diff || exit 2
(cd /verif && VERIF_REPO=$R ./check $CID --tier $TIER --no-evidence 2>&1 | tail -${LINES_OUT:-6});
git -C $R checkout -q -- .
find $R -name __pycache__ -type d -prune -exec rm -rf {} + 2>/dev/null
[ -z "$(git status --porcelain --untracked-files=no)" ] || echo "WARNING: $R still dirty"
