#!/bin/bash
# tools/try_seed.sh <seed_id> <CHECK_ID> [tier]  -- applies seeded/<seed_id>/patch.diff to /repo, runs the check, reverts.
SID=$1; CID=$2; TIER=${3:-quick}
cd /repo || exit 2
if [ -n "$(git status --porcelain --untracked-files=no)" ]; then echo "/repo not clean"; exit 2; fi
git apply /verif/seeded/$SID/patch.diff || exit 2
(cd /verif && ./check $CID --tier $TIER --no-evidence 2>&1 | tail -${LINES_OUT:-6}); 
git -C /repo checkout -q -- .
find /repo -name __pycache__ -type d -prune -exec rm -rf {} + 2>/dev/null
[ -z "$(git status --porcelain --untracked-files=no)" ] || echo "WARNING: /repo still dirty"
