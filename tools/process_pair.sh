#!/bin/bash
# tools/process_pair.sh cNN <wave>  -- verifies both seeds of an agent (suite passes, demo fails/passes), stores them, runs the quick check of the
# property against each on the agent's own scratch worktree (never /repo)
P=$1; W=$2; WT=/tmp/wt/$P; CID=$(echo $P | tr a-z A-Z)
for k in 1 2; do
  SID=${P}_${W}$k
  [ -d $WT/_seed/$SID ] || { echo "MISSING $SID"; continue; }
  /verif/tools/verify_seed.sh $WT $WT/_seed/$SID $SID 2>&1 | tail -4
  if [ -d /verif/seeded/$SID ]; then
    echo "--- check $CID vs $SID"
    TRY_REPO=$WT LINES_OUT=4 /verif/tools/try_seed.sh $SID $CID 2>&1 | cut -c1-330
  fi
done
