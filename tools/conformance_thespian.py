#!/venv/bin/python
"""Conformance of the simulated transport (mc/actorsim.py) with the real Thespian system bases.

  tools/conformance_thespian.py record [n]   run the scenario of conformance/confactors.py n times on the real multiprocTCPBase (the
                                             base Rally uses) and multiprocQueueBase, store the distinct observed per-actor logs in
                                             conformance/thespian_traces.json
  tools/conformance_thespian.py check        for every recorded real trace search the schedules of the simulation (deviation-bounded,
                                             depth first, pruned by the wanted logs) for one that produces exactly the same per-actor logs:
                                             real behaviours must be behaviours of the model (trace inclusion)

  tools/conformance_thespian.py record-convention [n]
                                             the same for the convention scenario (conformance/convactors.py): a leader and two member
                                             actor systems on loopback ports 1900-1902; joins before / after registration, creation with
                                             satisfiable / unsatisfiable requirements, members shutting down

`check` needs no real Thespian run and is part of the engines' self-test (MANIFEST.setup_cmd); `record` is run by hand.
"""
import json
import os
import shutil
import sys

HERE = os.path.dirname(os.path.dirname(os.path.abspath(__file__)))
sys.path.insert(0, HERE)
sys.path.insert(0, os.path.join(HERE, "conformance"))
TRACES = os.path.join(HERE, "conformance", "thespian_traces.json")


def norm(logs):
    return json.loads(json.dumps(logs, default=str))


def run_real(base):
    from thespian.actors import ActorSystem

    import confactors

    asys = ActorSystem(base, logDefs={"version": 1, "loggers": {"": {"level": "CRITICAL"}}})
    try:
        top = asys.createActor(confactors.Top)
        r = asys.ask(top, "start", 10)
    finally:
        asys.shutdown()
    if not isinstance(r, dict):
        raise RuntimeError(f"{base}: no answer ({r!r})")
    return norm(r)


class Inconsistent(Exception):
    pass


def run_sim(chooser, want=None):
    """one simulated run under `chooser`; with `want`, the run is abandoned (Inconsistent) as soon as some actor's log can no longer
    become the wanted one"""
    from mc import actorsim
    from mc.vclock import CLOCK

    import confactors

    CLOCK.start(now=0.0)
    sim = actorsim.ActorSim(chooser, horizon=100.0)
    names = {"Top": "top", "Child": "child", "Grand": "grand"}

    def consistent(s, _receiver=None, _msg=None):
        for rec in s.actors.values():
            w = want.get(names.get(type(rec.inst).__name__))
            log = norm(getattr(rec.inst, "log", []))
            if w is not None and log[: len(w)] != w[: len(log)]:
                raise Inconsistent()

    if want is not None:
        sim.on_deliver = consistent
    try:
        top = sim.create_actor(confactors.Top, parent=sim.external)
        sim.tell(top, "start")
        sim.run(until=lambda s: any(isinstance(m, dict) for _t, m in s.outbox))
        for _t, m in sim.outbox:
            if isinstance(m, dict):
                return norm(m)
        return None
    finally:
        sim.shutdown()


def find_schedule(want, max_exec=200000):
    """depth-first search over the schedules of the simulation, pruned as soon as an actor's log departs from the wanted one: returns
    (deviations, executions, choices) of the first schedule whose per-actor logs equal `want`, or (None, executions, None)"""
    from mc import explore

    stack = [()]
    n = 0
    while stack and n < max_exec:
        prefix = stack.pop()
        ch = explore.Chooser(prefix)
        n += 1
        try:
            got = run_sim(ch, want)
        except Inconsistent:
            got = None
        if got == want:
            return sum(1 for c in ch.choices if c), n, list(ch.choices)
        kids = []
        for i in range(len(prefix), len(ch.choices)):
            for alt in range(1, ch.points[i][0]):
                kids.append(tuple(ch.choices[:i]) + (alt,))
        stack.extend(reversed(kids))
    return None, n, None


def check(verbose=True):
    from mc import vclock

    vclock.install()
    data = json.load(open(TRACES))
    ok = True
    for i, entry in enumerate(data["traces"]):
        bound, n, choices = find_schedule(entry["logs"])
        if bound is None:
            ok = False
            print(f"conformance: real trace #{i} ({'/'.join(entry['bases'])}) is NOT a behaviour of the simulated transport ({n} schedules searched)")
            print(json.dumps(entry["logs"]))
        elif verbose:
            print(f"conformance: real trace #{i} ({'/'.join(entry['bases'])}, seen {entry['count']}x) reproduced by the simulation with {bound} deviation(s) "
                  f"after {n} schedules")
    return ok


def record(n):
    seen = {}
    for base in ("multiprocTCPBase", "multiprocQueueBase"):
        for _ in range(n):
            logs = run_real(base)
            k = json.dumps(logs, sort_keys=True)
            e = seen.setdefault(k, {"logs": logs, "bases": [], "count": 0})
            e["count"] += 1
            if base not in e["bases"]:
                e["bases"].append(base)
    import thespian

    out = {"thespian_version": getattr(thespian, "__version__", "?"), "scenario": "conformance/confactors.py", "traces": list(seen.values())}
    json.dump(out, open(TRACES, "w"), indent=1)
    print(f"{len(seen)} distinct real traces recorded in {TRACES}")


# ------------------------------------------------------------------------------------------------ convention of several actor systems
CONV_TRACES = os.path.join(HERE, "conformance", "thespian_convention_traces.json")
MEMBER = """
import sys, time
sys.path.insert(0, %r)
from thespian.actors import ActorSystem
port, ip, life = int(sys.argv[1]), sys.argv[2], float(sys.argv[3])
asys = ActorSystem("multiprocTCPBase", capabilities={"Admin Port": port, "Convention Address.IPv4": ("127.0.0.1", 1900), "ip": ip, "coordinator": False},
                   logDefs={"version": 1, "loggers": {"": {"level": "CRITICAL"}}})
print("up", flush=True)
sys.stdin.readline()
asys.shutdown()
print("down", flush=True)
"""


def run_real_convention():
    """leader system (port 1900) + two member systems in sub-processes; the script below is mirrored step by step in run_sim_convention"""
    import subprocess
    import tempfile
    import time

    from thespian.actors import ActorSystem

    import convactors

    mp = os.path.join(tempfile.mkdtemp(prefix="verif-conf-"), "member.py")
    open(mp, "w").write(MEMBER % os.path.join(HERE, "conformance"))

    def member(port, ip):
        p = subprocess.Popen([sys.executable, mp, str(port), ip, "0"], stdin=subprocess.PIPE, stdout=subprocess.PIPE, text=True)
        assert p.stdout.readline().strip() == "up"
        time.sleep(2.0)
        return p

    def leave(p):
        p.stdin.write("\n")
        p.stdin.flush()
        assert p.stdout.readline().strip() == "down"
        p.wait()
        time.sleep(3.0)

    asys = ActorSystem("multiprocTCPBase", capabilities={"Admin Port": 1900, "ip": "127.0.0.1", "coordinator": True, "Convention Address.IPv4": ("127.0.0.1", 1900)},
                       logDefs={"version": 1, "loggers": {"": {"level": "CRITICAL"}}})
    try:
        m1 = member(1901, "127.0.0.2")  # joins before the watcher registers
        w = asys.createActor(convactors.Watcher)
        assert asys.ask(w, "register", 10) == "registered"
        time.sleep(1.0)
        m2 = member(1902, "127.0.0.3")  # joins after the registration
        for ip in ("127.0.0.2", "127.0.0.3", "127.0.0.99"):  # nobody has the last capability
            asys.tell(w, ("create", ip))
        time.sleep(2.0)
        leave(m2)
        asys.tell(w, ("ask-child", "127.0.0.3"))  # a message to an actor of the departed system
        time.sleep(2.0)
        asys.tell(w, ("create", "127.0.0.3"))  # a creation that only the departed system could satisfy
        time.sleep(2.0)
        leave(m1)
        assert asys.ask(w, "unregister", 10) == "unregistered"
        return norm(asys.ask(w, "dump", 10))
    finally:
        asys.shutdown()
        shutil.rmtree(os.path.dirname(mp), ignore_errors=True)


def run_sim_convention(chooser, want=None):
    from mc import actorsim
    from mc.vclock import CLOCK

    import convactors

    CLOCK.start(now=0.0)
    sim = actorsim.ActorSim(chooser, horizon=100.0)
    sim.strict_placement = True

    def consistent(s, _receiver=None, _msg=None):
        for rec in s.actors.values():
            if type(rec.inst).__name__ == "Watcher":
                log = norm(rec.inst.log)
                if log[: len(want)] != want[: len(log)]:
                    raise Inconsistent()

    if want is not None:
        sim.on_deliver = consistent

    def answer():
        sim.run()
        return sim.outbox[-1][1] if sim.outbox else None

    try:
        sim.system_joins("127.0.0.2", {"ip": "127.0.0.2"})
        w = sim.create_actor(convactors.Watcher, parent=sim.external)
        sim.tell(w, "register")
        answer()
        sim.system_joins("127.0.0.3", {"ip": "127.0.0.3"})
        sim.run()
        for ip in ("127.0.0.2", "127.0.0.3", "127.0.0.99"):
            sim.tell(w, ("create", ip))
        sim.run()
        sim.system_leaves("127.0.0.3")
        sim.run()
        sim.tell(w, ("ask-child", "127.0.0.3"))
        sim.run()
        sim.tell(w, ("create", "127.0.0.3"))
        sim.run()
        sim.system_leaves("127.0.0.2")
        sim.run()
        sim.tell(w, "unregister")
        answer()
        sim.tell(w, "dump")
        return norm(answer())
    finally:
        sim.shutdown()


def find_convention_schedule(want, max_exec=50000):
    from mc import explore

    stack = [()]
    n = 0
    while stack and n < max_exec:
        prefix = stack.pop()
        ch = explore.Chooser(prefix)
        n += 1
        try:
            got = run_sim_convention(ch, want)
        except Inconsistent:
            got = None
        if got == want:
            return sum(1 for c in ch.choices if c), n, list(ch.choices)
        kids = []
        for i in range(len(prefix), len(ch.choices)):
            for alt in range(1, ch.points[i][0]):
                kids.append(tuple(ch.choices[:i]) + (alt,))
        stack.extend(reversed(kids))
    return None, n, None


def record_convention(n):
    seen = {}
    for _ in range(n):
        logs = run_real_convention()
        k = json.dumps(logs, sort_keys=True)
        e = seen.setdefault(k, {"logs": logs, "bases": ["multiprocTCPBase x3 systems"], "count": 0})
        e["count"] += 1
    json.dump({"scenario": "conformance/convactors.py", "traces": list(seen.values())}, open(CONV_TRACES, "w"), indent=1)
    print(f"{len(seen)} distinct real convention traces recorded in {CONV_TRACES}")


def check_convention(verbose=True):
    from mc import vclock

    vclock.install()
    if not os.path.exists(CONV_TRACES):
        return True
    ok = True
    for i, entry in enumerate(json.load(open(CONV_TRACES))["traces"]):
        dev, n, _choices = find_convention_schedule(entry["logs"])
        if dev is None:
            ok = False
            print(f"conformance: real convention trace #{i} is NOT a behaviour of the simulated transport ({n} schedules searched)")
            print(json.dumps(entry["logs"]))
        elif verbose:
            print(f"conformance: real convention trace #{i} (seen {entry['count']}x) reproduced by the simulation with {dev} deviation(s) after {n} schedules")
    return ok


def selftest():
    if not check(verbose=False) or not check_convention(verbose=False):
        raise SystemExit("conformance with recorded Thespian traces FAILED")


if __name__ == "__main__":
    cmd = sys.argv[1] if len(sys.argv) > 1 else "check"
    if cmd == "record":
        record(int(sys.argv[2]) if len(sys.argv) > 2 else 5)
    elif cmd == "record-convention":
        record_convention(int(sys.argv[2]) if len(sys.argv) > 2 else 3)
    else:
        a = check()
        b = check_convention()
        sys.exit(0 if a and b else 1)
