#!/venv/bin/python
"""Conformance of the simulated transport (mc/actorsim.py) with the real Thespian system bases.

  tools/conformance_thespian.py record [n]   run the scenario of conformance/confactors.py n times on the real multiprocTCPBase (the
                                             base Rally uses) and multiprocQueueBase, store the distinct observed per-actor logs in
                                             conformance/thespian_traces.json
  tools/conformance_thespian.py check        for every recorded real trace search the schedules of the simulation (deviation-bounded,
                                             depth first, pruned by the wanted logs) for one that produces exactly the same per-actor logs:
                                             real behaviours must be behaviours of the model (trace inclusion)

`check` needs no real Thespian run and is part of the engines' self-test (MANIFEST.setup_cmd); `record` is run by hand.
"""
import json
import os
import sys

HERE = os.path.dirname(os.path.dirname(os.path.abspath(__file__)))
sys.path.insert(0, HERE)
sys.path.insert(0, os.path.join(HERE, "conformance"))
TRACES = os.path.join(HERE, "conformance", "thespian_traces.json")


def norm(logs):
    return json.loads(json.dumps(logs, default=str))


def run_real(base):
    from thespian.actors import ActorSystem

    import confactors

    asys = ActorSystem(base, logDefs={"version": 1, "loggers": {"": {"level": "CRITICAL"}}})
    try:
        top = asys.createActor(confactors.Top)
        r = asys.ask(top, "start", 10)
    finally:
        asys.shutdown()
    if not isinstance(r, dict):
        raise RuntimeError(f"{base}: no answer ({r!r})")
    return norm(r)


class Inconsistent(Exception):
    pass


def run_sim(chooser, want=None):
    """one simulated run under `chooser`; with `want`, the run is abandoned (Inconsistent) as soon as some actor's log can no longer
    become the wanted one"""
    from mc import actorsim
    from mc.vclock import CLOCK

    import confactors

    CLOCK.start(now=0.0)
    sim = actorsim.ActorSim(chooser, horizon=100.0)
    names = {"Top": "top", "Child": "child", "Grand": "grand"}

    def consistent(s, _receiver=None, _msg=None):
        for rec in s.actors.values():
            w = want.get(names.get(type(rec.inst).__name__))
            log = norm(getattr(rec.inst, "log", []))
            if w is not None and log[: len(w)] != w[: len(log)]:
                raise Inconsistent()

    if want is not None:
        sim.on_deliver = consistent
    try:
        top = sim.create_actor(confactors.Top, parent=sim.external)
        sim.tell(top, "start")
        sim.run(until=lambda s: any(isinstance(m, dict) for _t, m in s.outbox))
        for _t, m in sim.outbox:
            if isinstance(m, dict):
                return norm(m)
        return None
    finally:
        sim.shutdown()


def find_schedule(want, max_exec=200000):
    """depth-first search over the schedules of the simulation, pruned as soon as an actor's log departs from the wanted one: returns
    (deviations, executions, choices) of the first schedule whose per-actor logs equal `want`, or (None, executions, None)"""
    from mc import explore

    stack = [()]
    n = 0
    while stack and n < max_exec:
        prefix = stack.pop()
        ch = explore.Chooser(prefix)
        n += 1
        try:
            got = run_sim(ch, want)
        except Inconsistent:
            got = None
        if got == want:
            return sum(1 for c in ch.choices if c), n, list(ch.choices)
        kids = []
        for i in range(len(prefix), len(ch.choices)):
            for alt in range(1, ch.points[i][0]):
                kids.append(tuple(ch.choices[:i]) + (alt,))
        stack.extend(reversed(kids))
    return None, n, None


def check(verbose=True):
    from mc import vclock

    vclock.install()
    data = json.load(open(TRACES))
    ok = True
    for i, entry in enumerate(data["traces"]):
        bound, n, choices = find_schedule(entry["logs"])
        if bound is None:
            ok = False
            print(f"conformance: real trace #{i} ({'/'.join(entry['bases'])}) is NOT a behaviour of the simulated transport ({n} schedules searched)")
            print(json.dumps(entry["logs"]))
        elif verbose:
            print(f"conformance: real trace #{i} ({'/'.join(entry['bases'])}, seen {entry['count']}x) reproduced by the simulation with {bound} deviation(s) "
                  f"after {n} schedules")
    return ok


def record(n):
    seen = {}
    for base in ("multiprocTCPBase", "multiprocQueueBase"):
        for _ in range(n):
            logs = run_real(base)
            k = json.dumps(logs, sort_keys=True)
            e = seen.setdefault(k, {"logs": logs, "bases": [], "count": 0})
            e["count"] += 1
            if base not in e["bases"]:
                e["bases"].append(base)
    import thespian

    out = {"thespian_version": getattr(thespian, "__version__", "?"), "scenario": "conformance/confactors.py", "traces": list(seen.values())}
    json.dump(out, open(TRACES, "w"), indent=1)
    print(f"{len(seen)} distinct real traces recorded in {TRACES}")


def selftest():
    if not check(verbose=False):
        raise SystemExit("conformance with recorded Thespian traces FAILED")


if __name__ == "__main__":
    cmd = sys.argv[1] if len(sys.argv) > 1 else "check"
    if cmd == "record":
        record(int(sys.argv[2]) if len(sys.argv) > 2 else 5)
    else:
        sys.exit(0 if check() else 1)
